/* C10 falsifier: the same job in different process histories.
 *
 * One process holds any number of named resamplers.  stdin, one op per line:
 *   new X k=v …          soxr_create (keys of harness/cr/trace.c + amp= sigseed=); X's statistics start from zero
 *   X <schedule op>      limit / feed / oneshot / drain / setfn / script / pull / pulldrain / proc / ratio / nullout
 *   X clear              soxr_clear; recipes without RESET_ON_CLEAR are re-initialised by soxr_set_io_ratio as soxr-lsr.c
 *                        does; X's stream position and statistics start from zero again (a new stream begins)
 *   X setch N            soxr_set_num_channels(N) ("E X setch <msg>" if it fails)
 *   X hash               "H X engine= out= pos= clips= err= delay= calls= log= fn= <hash of every channel's bytes>"
 *   X structcmp Y        `struct soxr` of X against that of Y, field by field ("SC X Y equal" / "SC X Y diff …")
 *   X fields             the model's view of X's struct: "F X k=v …" (compared with the Lean model's clear / create)
 *   del X                soxr_delete
 * Two histories that ought to leave X in the same condition must print identical H lines. */
#include "soxr.c"
#include "common.h"
#include <stddef.h>

#define NINST 16
static inst_t insts[NINST];

static inst_t * find(char const * name, int create)
{
  int i;
  for (i = 0; i < NINST; ++i) if (insts[i].name[0] && !strcmp(insts[i].name, name)) return &insts[i];
  if (create) for (i = 0; i < NINST; ++i) if (!insts[i].name[0]) { strncpy(insts[i].name, name, 31); return &insts[i]; }
  return 0;
}

/* ---------- struct soxr, field by field.  The table must list every member (checked against sizeof below and, from
 * the source text, by harness/chan/gen.c). */
typedef struct {char const * name; size_t off, size; int kind;} field_t;   /* kind 0: plain bytes, 1: owned pointer (compare NULL-ness), 2: seed, 3: caller's pointer */
#define F(n, k) {#n, offsetof(struct soxr, n), sizeof(((struct soxr *)0)->n), k}
static field_t const fields[] = {
  F(num_channels, 0), F(io_ratio, 0), F(error, 0), F(q_spec, 0), F(io_spec, 0), F(runtime_spec, 0),
  F(input_fn_state, 3), F(input_fn, 0), F(max_ilen, 0), F(shared, 1), F(resamplers, 1), F(control_block, 0),
  F(deinterleave, 0), F(interleave, 0), F(channel_ptrs, 1), F(clips, 0), F(seed, 2), F(flushing, 0)};
#define NFIELDS (sizeof(fields) / sizeof(fields[0]))

static void structcmp(inst_t * X, inst_t * Y)
{
  unsigned char const * a = (void *)X->S, * b = (void *)Y->S; size_t i, k, n = 0; unsigned char covered[sizeof(struct soxr)];
  char msg[2048]; msg[0] = 0;
  memset(covered, 0, sizeof(covered));
  for (i = 0; i < NFIELDS; ++i) {
    field_t const * f = &fields[i]; int differ = 0;
    memset(covered + f->off, 1, f->size);
    if (f->kind == 0) differ = memcmp(a + f->off, b + f->off, f->size) != 0;
    else if (f->kind == 1) differ = (*(void * const *)(a + f->off) != 0) != (*(void * const *)(b + f->off) != 0);
    else if (f->kind == 3) differ = (*(void * const *)(a + f->off) == (void *)X) != (*(void * const *)(b + f->off) == (void *)Y)
                                 || (*(void * const *)(a + f->off) != 0) != (*(void * const *)(b + f->off) != 0);
    /* kind 2 (seed): time- and address-derived on create, zero after clear: excluded (reported by `fields`) */
    if (differ && strlen(msg) < 1900) { sprintf(msg + strlen(msg), " %s", f->name); ++n; }
  }
  /* bytes of the struct that no listed member covers: padding is zero on both sides (calloc / memset); a member this
   * table does not know shows up here as soon as the two objects differ in it */
  for (k = 0; k < sizeof(struct soxr); ++k) if (!covered[k] && a[k] != b[k]) { if (strlen(msg) < 1900) sprintf(msg + strlen(msg), " unlisted-byte@%zu", k); ++n; break; }
  if (n) printf("SC %s %s diff%s\n", X->name, Y->name, msg); else printf("SC %s %s equal\n", X->name, Y->name);
}

static void print_fields(inst_t * X)
{
  soxr_t p = X->S; union {double d; uint64_t u;} r; r.d = p->io_ratio;
  printf("F %s num_channels=%u io_ratio_set=%d error=%d input_fn=%d input_fn_state=%d max_ilen=%zu shared=%d resamplers=%d "
         "control_block=%d deinterleave=%d interleave=%d channel_ptrs=%d clips=%zu seed0=%d flushing=%d reset_on_clear=%d io_ratio=%" PRIu64 "\n",
      X->name, p->num_channels, p->io_ratio != 0, p->error != 0, p->input_fn != 0, p->input_fn_state != 0, p->max_ilen,
      p->shared != 0, p->resamplers != 0, p->control_block[0] != 0, p->deinterleave != 0, p->interleave != 0, p->channel_ptrs != 0,
      p->clips, p->seed == 0, p->flushing, !!(p->q_spec.flags & RESET_ON_CLEAR), r.u);
}

int main(void)
{
  static char line[1 << 20]; char * t[4096]; int nt;
  setvbuf(stdout, 0, _IOFBF, 1 << 16);
  while (fgets(line, sizeof(line), stdin)) {
    char * s = strtok(line, " \t\r\n"); inst_t * I;
    nt = 0;
    while (s && nt < 4096) { t[nt++] = s; s = strtok(0, " \t\r\n"); }
    if (!nt) continue;
    if (!strcmp(t[0], "new") && nt >= 2) {
      I = find(t[1], 1);
      if (!I) { printf("E too many instances\n"); continue; }
      if (!inst_create(I, t + 2, nt - 2, 0, -1)) printf("C %s err %s\n", I->name, I->create_err);
      else printf("C %s ok engine=%s\n", I->name, soxr_engine(I->S));
      continue;
    }
    if (!strcmp(t[0], "del") && nt >= 2) { I = find(t[1], 0); if (I) { inst_delete(I); memset(I, 0, sizeof(*I)); } continue; }
    if (nt < 2) { printf("E bad line %s\n", t[0]); continue; }
    I = find(t[0], 0);
    if (!I || !I->S) { printf("E %s no-resampler\n", t[0]); continue; }
    if (inst_op(I, t + 1, nt - 1)) ;
    else if (!strcmp(t[1], "clear")) {
      soxr_error_t e = soxr_clear(I->S);
      print_fields(I);          /* straight after soxr_clear, before anything else touches the object */
      if (!e && !I->S->resamplers) e = soxr_set_io_ratio(I->S, I->irate / I->orate, 0);
      I->S->seed = 1;
      inst_reset_stats(I);
      I->gscript = 0; I->ngscript = I->gpos = 0;
      if (e) printf("E %s clear %s\n", I->name, e);
    }
    else if (!strcmp(t[1], "setch") && nt >= 3) {          /* soxr_set_num_channels (deferred channel count) */
      soxr_error_t e = soxr_set_num_channels(I->S, (unsigned)atoi(t[2]));
      if (e) printf("E %s setch %s\n", I->name, e); else I->ch = (unsigned)atoi(t[2]);
    }
    else if (!strcmp(t[1], "reset")) inst_reset_stats(I);
    else if (!strcmp(t[1], "fields")) print_fields(I);
    else if (!strcmp(t[1], "structcmp") && nt >= 3) {
      inst_t * Y = find(t[2], 0);
      if (Y && Y->S) structcmp(I, Y); else printf("E %s no-resampler\n", t[2]);
    }
    else if (!strcmp(t[1], "hash")) {
      unsigned c; union {double d; uint64_t u;} d; d.d = soxr_delay(I->S);
      printf("H %s engine=%s out=%" PRIu64 " pos=%" PRIu64 " clips=%zu err=%s delay=%" PRIu64 " calls=%zu log=%016" PRIx64 " fn=%d/%016" PRIx64,
          I->name, soxr_engine(I->S), I->total_out, I->pos, *soxr_num_clips(I->S), I->S->error? "E" : "-", d.u, I->log.len / 32, log_hash(I),
          I->fn_calls, I->fn_req_hash);
      for (c = 0; c < I->ch && c < MAXCH; ++c) printf(" %016" PRIx64, I->hash[c]);
      printf("\n");
      if (I->S->error) printf("ERR %s %s\n", I->name, I->S->error);
    }
    else printf("E bad-op %s\n", t[1]);
    fflush(stdout);
  }
  return 0;
}
