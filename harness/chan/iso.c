/* C06 falsifier: a multi-channel resampler against `ch` mono resamplers, each fed one channel alone.
 *
 * stdin:   job  k=v …            create arguments (keys of harness/cr/trace.c + amp= sigseed= mlay=)
 *          <schedule ops>        limit / feed / oneshot / drain / setfn / script / pull / pulldrain / proc / ratio
 *          end
 * The schedule is run once on the `ch`-channel resampler (layouts and num_threads as given) and once per channel c
 * on a 1-channel resampler whose only channel carries signal channel c (layout bits of the mono runs: mlay, bit 0 =
 * split input, bit 1 = split output; -1: as the job; with one channel the four layouts describe the same bytes, and
 * split/split takes soxr_process's both-split path, the others the generic path).
 * Compared: every delivered byte of every channel, per call idone / odone / error flag / soxr_delay() bits, the
 * error string at the end; reported: clip counters (multi and per mono run).
 *   "J …"     summary of the multi-channel run
 *   "M c …"   summary of mono run c
 *   "DIFF …"  first difference of each kind (none on a tree that has the property)
 *   "DONE"    */
#include "soxr.c"
#include "common.h"

static char * lines[8192]; static int nlines;

static void run_schedule(inst_t * I)
{
  int k; char * t[4096];
  for (k = 0; k < nlines; ++k) {
    char * copy = strdup(lines[k]), * s = strtok(copy, " \t\r\n"); int nt = 0;
    while (s && nt < 4096) { t[nt++] = s; s = strtok(0, " \t\r\n"); }
    if (nt && !inst_op(I, t, nt)) printf("W bad-op %s\n", t[0]);
    /* tokens of `script` are strdup'ed by inst_op; per-call scripts are used within the call only */
    free(copy);
  }
}

int main(void)
{
  static char line[1 << 20]; char * jt[256]; int njt = 0; char * jobline = 0;
  static inst_t multi, mono; unsigned c, ch; int mlay, ndiff = 0; size_t sum = 0;
  setvbuf(stdout, 0, _IOFBF, 1 << 16);
  while (fgets(line, sizeof(line), stdin)) {
    if (!strncmp(line, "end", 3)) break;
    if (!strncmp(line, "job ", 4)) { jobline = strdup(line + 4); continue; }
    if (nlines < 8192) lines[nlines++] = strdup(line);
  }
  if (!jobline) { printf("E no job\n"); return 2; }
  { char * s = strtok(jobline, " \t\r\n"); while (s && njt < 256) { jt[njt++] = s; s = strtok(0, " \t\r\n"); } }
  mlay = (int)kvd(jt, njt, "mlay", -1);

  strcpy(multi.name, "multi"); multi.keep = 1;
  if (!inst_create(&multi, jt, njt, 0, -1)) { printf("CREATE err %s\nDONE\n", multi.create_err); return 0; }
  ch = multi.ch;
  printf("CREATE ok engine=%s ch=%u\n", soxr_engine(multi.S), ch);
  run_schedule(&multi);
  printf("J out=%" PRIu64 " pos=%" PRIu64 " clips=%zu err=%s calls=%zu fncalls=%d\n", multi.total_out, multi.pos, *soxr_num_clips(multi.S),
      multi.S->error? multi.S->error : "-", multi.log.len / 32, multi.fn_calls);

  for (c = 0; c < ch; ++c) {
    size_t i, n;
    memset(&mono, 0, sizeof(mono));
    strcpy(mono.name, "mono"); mono.keep = 1;
    if (!inst_create(&mono, jt, njt, 1, mlay < 0? ((multi.itype & SOXR_SPLIT)? 1 : 0) | ((multi.otype & SOXR_SPLIT)? 2 : 0) : mlay)) {
      printf("DIFF what=create ch=%u mono-create-failed %s\n", c, mono.create_err); ++ndiff; continue;
    }
    mono.chanmap[0] = c;
    run_schedule(&mono);
    sum += *soxr_num_clips(mono.S);
    printf("M %u out=%" PRIu64 " clips=%zu err=%s\n", c, mono.total_out, *soxr_num_clips(mono.S), mono.S->error? mono.S->error : "-");
    if (mono.total_out != multi.total_out) { printf("DIFF what=count ch=%u multi=%" PRIu64 " mono=%" PRIu64 "\n", c, multi.total_out, mono.total_out); ++ndiff; }
    n = mono.bytes[0].len < multi.bytes[c].len? mono.bytes[0].len : multi.bytes[c].len;
    for (i = 0; i < n && mono.bytes[0].s[i] == multi.bytes[c].s[i]; ++i);
    if (i < n) {
      size_t sz = tsize(multi.otype), f = i / sz, b;
      printf("DIFF what=bytes ch=%u frame=%zu of=%zu multi=", c, f, n / sz);
      for (b = 0; b < sz; ++b) printf("%02x", (unsigned char)multi.bytes[c].s[f * sz + b]);
      printf(" mono=");
      for (b = 0; b < sz; ++b) printf("%02x", (unsigned char)mono.bytes[0].s[f * sz + b]);
      { size_t nd = 0, k; for (k = 0; k < n / sz; ++k) if (memcmp(multi.bytes[c].s + k * sz, mono.bytes[0].s + k * sz, sz)) ++nd; printf(" differing_frames=%zu\n", nd); }
      ++ndiff;
    }
    if (mono.log.len != multi.log.len) { printf("DIFF what=calls ch=%u multi=%zu mono=%zu\n", c, multi.log.len / 32, mono.log.len / 32); ++ndiff; }
    else {
      uint64_t const * a = (uint64_t const *)multi.log.s, * b = (uint64_t const *)mono.log.s; size_t k, m = multi.log.len / 8;
      static char const * const fld[4] = {"idone", "odone", "error", "delay"};
      for (k = 0; k < m && a[k] == b[k]; ++k);
      if (k < m) { printf("DIFF what=log ch=%u call=%zu field=%s multi=%" PRIu64 " mono=%" PRIu64 "\n", c, k / 4, fld[k % 4], a[k], b[k]); ++ndiff; }
    }
    if (strcmp(mono.S->error? mono.S->error : "-", multi.S->error? multi.S->error : "-")) { printf("DIFF what=errstr ch=%u\n", c); ++ndiff; }
    if (mono.fn_calls != multi.fn_calls || mono.fn_req_hash != multi.fn_req_hash) { printf("DIFF what=fnreqs ch=%u multi=%d mono=%d\n", c, multi.fn_calls, mono.fn_calls); ++ndiff; }
    inst_delete(&mono);
  }
  printf("S clips=%zu monosum=%zu threads=%u ndiff=%d\n", *soxr_num_clips(multi.S), sum, multi.S->runtime_spec.num_threads, ndiff);
  inst_delete(&multi);
  printf("DONE\n");
  return 0;
}
