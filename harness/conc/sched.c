/* Deterministic-scheduler harness for C17 (distinct resamplers used concurrently).
 *
 * The library is built with -DSOXR_VERIF: ccrw2.h routes the OpenMP lock primitives to soxr_verif_{init,destroy,set,unset}_lock
 * and fft4g_cache.h / vr32.c call soxr_verif_yield(tag) at the points where the lazy initialisers and the cache protocol can be
 * pre-empted.  This file gives the strong definitions: managed pthreads run ONE AT A TIME; control changes hands only at lock
 * acquisitions, yield points (optionally also after lock releases) and thread exit; which runnable thread continues is decided
 * by a schedule (explicit choices, then a tail policy).  Every run happens in a forked child, so each starts from process start
 * (FFT_LEN == -1, tables NULL) unless the run asks for a completed initialisation first (warm=1).
 *
 * filter.c is #included so that the real shared variables (fft_len, fft_len_f, the two bit-reversal tables; the two ccrw2_t are found by a probe, not by name) can
 * be sampled after every event: they are printed with the event and compared with the Lean model's variables by soxr_conc.
 *
 * Per run the parent prints
 *   RUN <id> threads=<n> warm0=<0|1> warm1=<0|1>
 *   E <tid> <cache> <want|got|rel|init|yield|use> <name> <arg> <FFT_LEN> <readcount> <writecount> <tab> <m1> <m2> <m3> <w> <r>
 *   V <tid> <begin|passed|filled|end|leave>
 *   END
 *   VIOL <id> <event#> <KIND> <detail>             what the harness-side monitors saw on the REAL code (property oracles)
 *   RESULT <id> status=<ok|deadlock|timeout|crash:N|overflow> events=<n> ndec=<n> decisions=<digits> wrong=<list> jobs=<n>
 *
 * usage: sched batch <file>      one run per line:  <id> key=value ...
 *        keys: jobs=<t0job+t0job/t1job...> sched=<[0-9cnm]*|-> tail=<c|r|x> seed=<n> p=<0..255> warm=<0|1|2|3> relswitch=<0|1>
 *              simd32=<0|1> simd64=<0|1>
 *        job:  Q:<recipe>:<phase>:<irate>:<orate>:<nsamples>   constant-rate one-shot, mono float32
 *              V:<ratio*1000>:<nsamples>                        variable-rate engine
 */
#define _GNU_SOURCE
#include "filter.c"
#include <stdio.h>
#include <stdlib.h>
#include <string.h>
#include <math.h>
#include <pthread.h>
#include <signal.h>
#include <unistd.h>
#include <sys/mman.h>
#include <sys/wait.h>
#include <stddef.h>
#include "soxr.h"

/* ThreadSanitizer build ("tsan" variant): the scheduler's own hand-over (a pthread mutex and condition variable) and the monitors'
 * reads of the library's variables are hidden from ThreadSanitizer, and the lock shim tells it exactly what the real locks would:
 * acquire on set, release on unset.  ThreadSanitizer's happens-before relation is then the one induced by the library's own
 * lock operations (plus thread creation), the schedule is deterministic, and every pair of conflicting accesses to the shared
 * tables that the lock discipline does not order is reported - whatever the timing. */
#if defined __SANITIZE_THREAD__
void AnnotateIgnoreReadsBegin(char const *, int); void AnnotateIgnoreReadsEnd(char const *, int);
void AnnotateIgnoreWritesBegin(char const *, int); void AnnotateIgnoreWritesEnd(char const *, int);
void AnnotateIgnoreSyncBegin(char const *, int); void AnnotateIgnoreSyncEnd(char const *, int);
void __tsan_acquire(void *); void __tsan_release(void *);
#define HIDE_BEGIN() do { AnnotateIgnoreReadsBegin(__FILE__, __LINE__); AnnotateIgnoreWritesBegin(__FILE__, __LINE__); AnnotateIgnoreSyncBegin(__FILE__, __LINE__); } while (0)
#define HIDE_END() do { AnnotateIgnoreSyncEnd(__FILE__, __LINE__); AnnotateIgnoreWritesEnd(__FILE__, __LINE__); AnnotateIgnoreReadsEnd(__FILE__, __LINE__); } while (0)
#define TSAN_ACQUIRE(l) __tsan_acquire(l)
#define TSAN_RELEASE(l) __tsan_release(l)
#else
#define HIDE_BEGIN() ((void)0)
#define HIDE_END() ((void)0)
#define TSAN_ACQUIRE(l) ((void)0)
#define TSAN_RELEASE(l) ((void)0)
#endif

#define MAXT 4
#define MAXJOBS 4
#define MAXEV 400000
#define MAXVIOL 64
#define MAXDEC 200000
#define MAXOUT 40000

enum {K_WANT, K_GOT, K_REL, K_INIT, K_YIELD, K_VR, K_USE};
static const char *kind_name[] = {"want", "got", "rel", "init", "yield", "vr", "use"};
enum {N_M1, N_M2, N_M3, N_W, N_R, N_CHECK_PASSED, N_LOCKS_INITIALISED, N_REBUILD_BEGIN, N_BEGIN_READER, N_END_READER,
      N_BEGIN_WRITER, N_END_WRITER, N_VR_BEGIN, N_VR_PASSED, N_VR_FILLED, N_VR_END, N_VR_LEAVE, N_OTHER, N_TABLES};
static const char *name_str[] = {"m1", "m2", "m3", "w", "r", "check-passed", "locks-initialised", "rebuild-begin", "begin-as-reader",
  "end-as-reader", "begin-as-writer", "end-as-writer", "begin", "passed", "filled", "end", "leave", "other", "tables"};

typedef struct { int tid, cache, kind, name; long arg, flen, rc, wc, tab; unsigned char h[5]; } event_t;
static event_t alt_obs[4]; /* cache-1 observation of a yield whose cache is not yet known */
typedef struct { int ev; char kind[40]; char detail[200]; } viol_t;
typedef struct {
  int nev, nviol, ndec, status;  /* status: 0 running/crashed, 1 ok, 2 deadlock, 3 overflow */
  int wrong[MAXT][MAXJOBS];
  event_t ev[MAXEV];
  viol_t viol[MAXVIOL];
  unsigned char dec[MAXDEC];
} shared_t;
static shared_t *sh;

/* ------------------------------------------------------------------ jobs */
typedef struct { int vr, recipe; double phase, irate, orate; int n; char spec[64]; } job_t;
typedef struct { int njobs; job_t job[MAXJOBS]; } prog_t;
typedef struct { size_t n; float out[MAXOUT]; int valid; char spec[64]; } ref_t;
#define MAXREF 64
static ref_t *refs; static int nrefs;

static float *make_input(int n)
{
  float *in = malloc(sizeof(float) * (size_t)n); unsigned s = 12345; int i;
  for (i = 0; i < n; ++i) { s = s * 1664525u + 1013904223u; in[i] = (float)(0.4 * sin(i * 0.05) + 0.3 * ((double)(s >> 8) / (1 << 24) - .5)); }
  return in;
}

static void vr_event(int name);

static int run_job(job_t const *j, float *out, size_t cap, size_t *on)
{
  float *in = make_input(j->n); soxr_error_t e = 0; size_t idone = 0; *on = 0;
  if (!j->vr) {
    soxr_quality_spec_t q = soxr_quality_spec((unsigned long)j->recipe, 0); q.phase_response = j->phase;
    e = soxr_oneshot(j->irate, j->orate, 1, in, (size_t)j->n, &idone, out, cap, on, 0, &q, 0);
  } else {
    soxr_quality_spec_t q = soxr_quality_spec(SOXR_HQ, SOXR_VR); soxr_t s; size_t od = 0, tot = 0, id;
    vr_event(N_VR_BEGIN);
    s = soxr_create(8, 1, 1, &e, 0, &q, 0);
    vr_event(N_VR_END);
    if (s) {
      soxr_set_io_ratio(s, j->irate, 0);
      e = soxr_process(s, in, (size_t)j->n, &id, out, cap, &od); tot = od;
      while (!e && tot < cap) { e = soxr_process(s, 0, 0, 0, out + tot, cap - tot, &od); if (!od) break; tot += od; }
      *on = tot;
      soxr_delete(s);
    }
    vr_event(N_VR_LEAVE);
  }
  free(in);
  return e ? 1 : 0;
}

static int parse_job(char const *s, job_t *j)
{
  memset(j, 0, sizeof *j); snprintf(j->spec, sizeof j->spec, "%s", s);
  if (s[0] == 'Q') { int r; double ph, ir, orr; int n; if (sscanf(s, "Q:%d:%lf:%lf:%lf:%d", &r, &ph, &ir, &orr, &n) != 5) return 0;
    j->recipe = r; j->phase = ph; j->irate = ir; j->orate = orr; j->n = n; return n > 0 && n <= 8000; }
  if (s[0] == 'V') { int r, n; if (sscanf(s, "V:%d:%d", &r, &n) != 2) return 0; j->vr = 1; j->irate = r / 1000.; j->orate = 1; j->n = n; return n > 0 && n <= 8000; }
  return 0;
}

/* ------------------------------------------------------------------ scheduler */
static pthread_mutex_t mu = PTHREAD_MUTEX_INITIALIZER; static pthread_cond_t cv = PTHREAD_COND_INITIALIZER;
static int managed, nthreads, current = -1, finished[MAXT]; static __thread int me = -1;
static soxr_verif_lock_t *blocked[MAXT];
static int opt_relswitch, opt_p = 64; static char opt_tail = 'c'; static unsigned long long rng_s = 88172645463325252ull;
static char const *explicit_sched = ""; static size_t explicit_pos;
/* monitors */
static int cur_cache[MAXT], patch_cache_ev[MAXT], patch_len_ev[MAXT], in_read[MAXT], in_rebuild[MAXT], in_init[MAXT];
static int init_entries[2], vr_entries; static long last_flen[2], last_tab[2];
static prog_t prog[MAXT];

static unsigned long long rnd(void) { rng_s ^= rng_s << 13; rng_s ^= rng_s >> 7; rng_s ^= rng_s << 17; return rng_s; }

static void viol(char const *kind, char const *fmt, long a, long b, long c)
{
  if (sh->nviol < MAXVIOL) { viol_t *v = &sh->viol[sh->nviol++]; v->ev = sh->nev; snprintf(v->kind, sizeof v->kind, "%s", kind); snprintf(v->detail, sizeof v->detail, fmt, a, b, c); }
}

/* Which ccrw2_t guards which cache is LEARNED, not named: before the first run a probe child calls each cache's initialiser once
 * (lsx_init_fft_cache for the double tables = cache 0, lsx_init_fft_cache_f for the float tables = cache 1) and the lock shim
 * records the five lock words each of them initialises (the field is the text after the last '.' of the shim's name argument).
 * The model describes each cache with lock words of its own: that the two sets are disjoint is checked, not assumed. */
typedef struct { soxr_verif_lock_t *lk[2][5]; int nfound[2]; int shared; } probe_t;
static probe_t *probe; static int probing = -1;
static ccrw2_t no_ccrw;
static int field_of(char const *n)
{
  char const *d = strrchr(n, '.'); d = d ? d + 1 : n;
  return !strcmp(d, "mutex_1") ? N_M1 : !strcmp(d, "mutex_2") ? N_M2 : !strcmp(d, "mutex_3") ? N_M3 : !strcmp(d, "w") ? N_W : !strcmp(d, "r") ? N_R : N_OTHER;
}
static ccrw2_t *ccrw_of(int c)
{ return probe->lk[c][N_M1] ? (ccrw2_t *)(void *)((char *)probe->lk[c][N_M1] - offsetof(ccrw2_t, mutex_1)) : &no_ccrw; }
static int held_of(int c, int f) { return probe->lk[c][f] ? probe->lk[c][f]->held : 0; }
static long flen_of(int c) { return c ? fft_len_f : fft_len; }
static long tab_of(int c) { int *br = c ? lsx_fft_br_f : lsx_fft_br; return br ? 4L * br[0] : 0; }

static int lock_id(soxr_verif_lock_t *l, int *cache)
{
  int c, f; for (c = 0; c < 2; ++c) for (f = 0; f < 5; ++f) if (l == probe->lk[c][f]) { *cache = c; return f; }
  *cache = 0; return N_OTHER;       /* (a lock word that belongs to both caches is attributed to cache 0) */
}

/* record one event of the running thread (mu held) and evaluate the real-code monitors */
static void emit(int cache, int kind, int name, long arg)
{
  event_t *e; int t;
  if (sh->nev >= MAXEV) { sh->status = 3; _exit(4); }
  e = &sh->ev[sh->nev];
  e->tid = me; e->cache = cache; e->kind = kind; e->name = name; e->arg = arg;
  if (kind == K_VR) { sh->nev++; return; }
  { int c; for (c = 0; c < 2; ++c) if (cache == c || cache < 0) {
    ccrw2_t *p = ccrw_of(c); event_t *o = (cache < 0 && c == 1) ? &alt_obs[me] : e;
    o->flen = flen_of(c); o->rc = p->readcount; o->wc = p->writecount; o->tab = tab_of(c);
    { int f; for (f = 0; f < 5; ++f) o->h[f] = (unsigned char)held_of(c, f); } } }
  /* back-patches: the cache of an `init:check-passed` yield and the len of a `cache:rebuild-begin` yield are only known at
   * the thread's next event */
  if (cache >= 0 && patch_cache_ev[me] >= 0) { event_t *q = &sh->ev[patch_cache_ev[me]], *o = &alt_obs[me];
    q->cache = cache;
    if (cache == 1) { q->flen = o->flen; q->rc = o->rc; q->wc = o->wc; q->tab = o->tab; memcpy(q->h, o->h, 5); }
    patch_cache_ev[me] = -1;
    if (init_entries[cache]++) viol("SECOND-INIT-ENTRY", "thread %ld passed the test FFT_LEN >= 0 of cache %ld although %ld thread(s) had passed it before", me, cache, init_entries[cache] - 1); }
  if (cache >= 0 && patch_len_ev[me] >= 0) { sh->ev[patch_len_ev[me]].arg = flen_of(cache); patch_len_ev[me] = -1; }
  if (cache >= 0) {
    /* who may have changed FFT_LEN / the tables since the previous event: only the running thread */
    long f = flen_of(cache), tb = tab_of(cache);
    if (f != last_flen[cache]) {
      if (in_init[me] && f == 0) { if (last_flen[cache] >= 0) viol("RESET", "thread %ld stored FFT_LEN = 0 in cache %ld while FFT_LEN was %ld (second initialisation)", me, cache, last_flen[cache]); }
      else if (!in_rebuild[me]) viol("FFTLEN-WRITE-BY-NON-WRITER", "thread %ld changed FFT_LEN of cache %ld to %ld outside a rebuild", me, cache, f);
      else if (f <= last_flen[cache]) viol("REBUILD-WITHOUT-GROWTH", "thread %ld rebuilt cache %ld to FFT_LEN %ld, not larger than before", me, cache, f);
      last_flen[cache] = f;
    }
    if (tb != last_tab[cache]) {
      if (!in_rebuild[me]) viol("TABLE-WRITE-BY-NON-WRITER", "thread %ld wrote the tables of cache %ld (built length now %ld) without the writer role", me, cache, tb);
      last_tab[cache] = tb;
    }
  }
  if (kind == K_YIELD) {
    if (name == N_LOCKS_INITIALISED) ;
    if (name == N_REBUILD_BEGIN) { in_rebuild[me] = cache + 1; patch_len_ev[me] = sh->nev; }
    if (name == N_BEGIN_READER) in_read[me] = cache + 1;
    if (name == N_END_READER) in_read[me] = 0;
    if (name == N_END_WRITER) in_rebuild[me] = 0;
    if (name == N_REBUILD_BEGIN || name == N_BEGIN_READER || name == N_BEGIN_WRITER) {
      int readers = 0, rebuilders = 0;
      for (t = 0; t < nthreads; ++t) { readers += in_read[t] == cache + 1; rebuilders += in_rebuild[t] == cache + 1; }
      if (rebuilders > 1) viol("TWO-REBUILDERS", "%ld threads are rebuilding cache %ld at once%.0ld", rebuilders, cache, 0);
      if (rebuilders && readers) viol("READ-DURING-REBUILD", "%ld reader(s) inside a transform of cache %ld while %ld thread(s) rebuild its tables", readers, cache, rebuilders);
    }
  }
  if (kind == K_WANT && in_init[me]) in_init[me] = 0;
  sh->nev++;
}

static int runnable(int t) { return !finished[t] && !(blocked[t] && blocked[t]->held); }

static void handover(void)
{
  int r[MAXT], k = 0, t, pick;
  for (t = 0; t < nthreads; ++t) if (runnable(t)) r[k++] = t;
  if (!k) {
    int all = 1; for (t = 0; t < nthreads; ++t) all &= finished[t];
    if (all) { current = -1; pthread_cond_broadcast(&cv); return; }
    viol("DEADLOCK", "no runnable thread (%ld unfinished)%.0ld%.0ld", nthreads, 0, 0); sh->status = 2; _exit(3);
  }
  if (k == 1) pick = r[0];
  else {
    int idx;
    int curpos = -1; for (t = 0; t < k; ++t) if (r[t] == current) curpos = t;
    if (explicit_sched[explicit_pos]) {
      /* digit: index among the runnable threads; c: continue with the current thread (no pre-emption); n / m: the next /
       * next-but-one runnable thread after the current one (a pre-emption when the current thread could have continued) */
      char ch = explicit_sched[explicit_pos++];
      if (ch == 'c') idx = curpos >= 0 ? curpos : 0;
      else if (ch == 'n' || ch == 'm') { idx = 0; for (t = 0; t < k; ++t) if (r[t] > current) { idx = t; break; } if (ch == 'm') idx = (idx + 1) % k; }
      else idx = (ch - '0') % k;
    }
    else {
      if (opt_tail == 'c') idx = curpos >= 0 ? curpos : 0;
      else if (opt_tail == 'r') { idx = 0; for (t = 0; t < k; ++t) if (r[t] > current) { idx = t; break; } }
      else { if (curpos >= 0 && (int)(rnd() >> 20 & 255) >= opt_p) idx = curpos; else idx = (int)(rnd() >> 20) % k; }
    }
    if (idx < 0) idx = 0;
    pick = r[idx];
    if (sh->ndec < MAXDEC) sh->dec[sh->ndec++] = (unsigned char)idx;
  }
  current = pick; pthread_cond_broadcast(&cv);
}
static void wait_turn(void) { while (current != me) pthread_cond_wait(&cv, &mu); }

void soxr_verif_yield(char const *tag)
{
  int name, cache;
  if (!managed || me < 0) return;
  HIDE_BEGIN();
  pthread_mutex_lock(&mu);
  cache = cur_cache[me];
  if (!strcmp(tag, "init:check-passed")) { name = N_CHECK_PASSED; cache = -1; patch_cache_ev[me] = sh->nev; in_init[me] = 1; }
  else if (!strcmp(tag, "init:locks-initialised")) name = N_LOCKS_INITIALISED;
  else if (!strcmp(tag, "cache:rebuild-begin")) name = N_REBUILD_BEGIN;
  else if (!strcmp(tag, "dft:begin-as-reader")) name = N_BEGIN_READER;
  else if (!strcmp(tag, "dft:end-as-reader")) name = N_END_READER;
  else if (!strcmp(tag, "dft:begin-as-writer")) name = N_BEGIN_WRITER;
  else if (!strcmp(tag, "dft:end-as-writer")) name = N_END_WRITER;
  else if (!strcmp(tag, "vr:tables-check-passed")) {
    if (vr_entries++) viol("VR-SECOND-INIT-ENTRY", "thread %ld passed the test fade_coefs[0]==0 although %ld thread(s) had passed it before%.0ld", me, vr_entries - 1, 0);
    emit(-1, K_VR, N_VR_PASSED, 0); handover(); wait_turn(); pthread_mutex_unlock(&mu); HIDE_END(); return; }
  else if (!strcmp(tag, "vr:fade-filled")) { emit(-1, K_VR, N_VR_FILLED, 0); handover(); wait_turn(); pthread_mutex_unlock(&mu); HIDE_END(); return; }
  else name = N_OTHER;
  emit(cache, K_YIELD, name, 0);
  handover(); wait_turn();
  pthread_mutex_unlock(&mu);
  HIDE_END();
}

/* fft4g.c: a transform is about to dereference its tables (ip[0], then the twiddles).  Private work areas are ignored; the
 * process-wide tables are recognised by pointer identity.  An event of the running thread, a monitor (the thread must be inside a
 * dft:begin/end bracket of that cache, i.e. hold the reader or the writer role, and nobody else may be rebuilding) and a
 * scheduling point. */
void soxr_verif_table_use(int const *ip, void const *w)
{
  int cache, t;
  if (!managed || me < 0) return;
  HIDE_BEGIN();
  if (ip == lsx_fft_br || (lsx_fft_sc && w == (void const *)lsx_fft_sc)) cache = 0;
  else if (ip == lsx_fft_br_f || (lsx_fft_sc_f && w == (void const *)lsx_fft_sc_f)) cache = 1;
  else { HIDE_END(); return; }
  pthread_mutex_lock(&mu);
  cur_cache[me] = cache;
  if (in_read[me] != cache + 1 && in_rebuild[me] != cache + 1)
    viol("TABLE-USE-OUTSIDE-LOCK", "thread %ld dereferences the tables of cache %ld outside UPDATE_FFT_CACHE .. DONE_WITH_FFT_CACHE (it holds neither the reader nor the writer role)%.0ld", me, cache, 0);
  for (t = 0; t < nthreads; ++t) if (t != me && in_rebuild[t] == cache + 1)
    viol("TABLE-USE-DURING-REBUILD", "thread %ld dereferences the tables of cache %ld while thread %ld re-allocates / rebuilds them", me, cache, t);
  emit(cache, K_USE, N_TABLES, 0);
  handover(); wait_turn();
  pthread_mutex_unlock(&mu);
  HIDE_END();
}

static void vr_event(int name)
{
  if (!managed || me < 0) return;
  HIDE_BEGIN(); pthread_mutex_lock(&mu); emit(-1, K_VR, name, 0); pthread_mutex_unlock(&mu); HIDE_END();
}

void soxr_verif_init_lock(soxr_verif_lock_t *l, char const *n)
{
  if (managed && me >= 0) {
    int cache, name, was_inited, was_held;
    HIDE_BEGIN();
    name = lock_id(l, &cache); was_inited = l->inited; was_held = l->held;
    pthread_mutex_lock(&mu);
    cur_cache[me] = cache;
    l->held = 0; l->inited = 1;
    if (was_held) viol("REINIT-HELD", "thread %ld re-initialised lock %ld of cache %ld while it was held", me, name, cache);
    else if (was_inited) viol("REINIT", "thread %ld initialised lock %ld of cache %ld a second time", me, name, cache);
    emit(cache, K_INIT, name, 0);
    pthread_mutex_unlock(&mu);
    HIDE_END();
  } else {
    if (probing >= 0) { int f = field_of(n); if (f < 5) { probe->lk[probing][f] = l; probe->nfound[probing]++; } }
    l->held = 0; l->inited = 1;
  }
}

void soxr_verif_destroy_lock(soxr_verif_lock_t *l, char const *n) { (void)n; l->inited = 0; }

void soxr_verif_set_lock(soxr_verif_lock_t *l, char const *n)
{
  int cache, name;
  (void)n;
  if (!managed || me < 0) { l->held = 1; return; }
  HIDE_BEGIN();
  name = lock_id(l, &cache);
  pthread_mutex_lock(&mu);
  cur_cache[me] = cache;
  if (!l->inited) viol("USE-UNINIT", "thread %ld acquires lock %ld of cache %ld, which was never initialised", me, name, cache);
  blocked[me] = l;
  emit(cache, K_WANT, name, 0);
  handover(); wait_turn();
  /* the scheduler only resumes a thread whose lock is free */
  blocked[me] = 0; l->held = 1;
  emit(cache, K_GOT, name, 0);
  pthread_mutex_unlock(&mu);
  HIDE_END();
  TSAN_ACQUIRE(l);
}

void soxr_verif_unset_lock(soxr_verif_lock_t *l, char const *n)
{
  int cache, name;
  (void)n;
  if (!managed || me < 0) { l->held = 0; return; }
  TSAN_RELEASE(l);
  HIDE_BEGIN();
  name = lock_id(l, &cache);
  pthread_mutex_lock(&mu);
  cur_cache[me] = cache;
  if (!l->held) viol("RELEASE-NOT-HELD", "thread %ld releases lock %ld of cache %ld, which is not held", me, name, cache);
  l->held = 0;
  emit(cache, K_REL, name, 0);
  if (opt_relswitch) { handover(); wait_turn(); }
  pthread_mutex_unlock(&mu);
  HIDE_END();
}

static ref_t *find_ref(char const *spec) { int i; for (i = 0; i < nrefs; ++i) if (!strcmp(refs[i].spec, spec)) return &refs[i]; return 0; }

static void *thread_main(void *a)
{
  int j; static float out[MAXT][MAXOUT];
  me = (int)(size_t)a;
  HIDE_BEGIN(); pthread_mutex_lock(&mu); wait_turn(); pthread_mutex_unlock(&mu); HIDE_END();
  for (j = 0; j < prog[me].njobs; ++j) {
    size_t on = 0; ref_t *r = find_ref(prog[me].job[j].spec);
    int err = run_job(&prog[me].job[j], out[me], MAXOUT, &on);
    if (err || !r || !r->valid || on != r->n || memcmp(out[me], r->out, on * sizeof(float))) sh->wrong[me][j] = 1;
  }
  HIDE_BEGIN(); pthread_mutex_lock(&mu); finished[me] = 1; handover(); pthread_mutex_unlock(&mu); HIDE_END();
  return 0;
}

/* ------------------------------------------------------------------ one run (in a child) */
typedef struct { char id[64]; char jobs[400]; char sched[20001]; char tail; unsigned long long seed; int p, warm, relswitch, simd32, simd64; } run_t;

static int parse_prog(char const *jobs)
{
  char buf[400], *tp, *ts; int t = 0;
  snprintf(buf, sizeof buf, "%s", jobs);
  for (tp = strtok_r(buf, "/", &ts); tp && t < MAXT; tp = strtok_r(0, "/", &ts), ++t) {
    char *jp, *js; prog[t].njobs = 0;
    for (jp = strtok_r(tp, "+", &js); jp; jp = strtok_r(0, "+", &js)) {
      if (prog[t].njobs >= MAXJOBS || !parse_job(jp, &prog[t].job[prog[t].njobs])) return 0;
      prog[t].njobs++;
    }
  }
  return t;
}

static void compute_ref(char const *key, char const *spec, int simd32, int simd64)
{
  ref_t *r; pid_t pid; int st;
  if (find_ref(key) || nrefs >= MAXREF) return;
  r = &refs[nrefs++]; memset(r, 0, sizeof *r); snprintf(r->spec, sizeof r->spec, "%s", key);
  fflush(stdout);
  pid = fork();
  if (!pid) { job_t j; setenv("SOXR_USE_SIMD32", simd32 ? "1" : "0", 1); setenv("SOXR_USE_SIMD64", simd64 ? "1" : "0", 1);
    if (parse_job(spec, &j) && !run_job(&j, r->out, MAXOUT, &r->n)) r->valid = 1; _exit(0); }
  waitpid(pid, &st, 0);
}

static char const *getkv(char const *line, char const *key, char *out, size_t n)
{
  char pat[40]; char const *p; size_t i = 0; snprintf(pat, sizeof pat, " %s=", key);
  p = strstr(line, pat); if (!p) { out[0] = 0; return 0; }
  p += strlen(pat); while (*p && *p != ' ' && *p != '\n' && i + 1 < n) out[i++] = *p++; out[i] = 0; return out;
}

static void do_line(char const *line)
{
  static run_t r; char v[64]; pid_t pid; int st, i, t, j, simd_key;
  memset(&r, 0, sizeof r);
  if (sscanf(line, "%63s", r.id) != 1 || r.id[0] == '#') return;
  getkv(line, "jobs", r.jobs, sizeof r.jobs);
  if (!getkv(line, "sched", r.sched, sizeof r.sched)) strcpy(r.sched, "-");
  r.tail = getkv(line, "tail", v, sizeof v) ? v[0] : 'c';
  r.seed = getkv(line, "seed", v, sizeof v) ? strtoull(v, 0, 10) : 1;
  r.p = getkv(line, "p", v, sizeof v) ? atoi(v) : 64;
  r.warm = getkv(line, "warm", v, sizeof v) ? atoi(v) : 0;
  r.relswitch = getkv(line, "relswitch", v, sizeof v) ? atoi(v) : 0;
  r.simd32 = getkv(line, "simd32", v, sizeof v) ? atoi(v) : 0;
  r.simd64 = getkv(line, "simd64", v, sizeof v) ? atoi(v) : 0;
  nthreads = parse_prog(r.jobs);
  if (nthreads < 1) { printf("RESULT %s status=badspec\n", r.id); return; }
  /* serial references: each job alone in a fresh process (same engine selection) */
  simd_key = r.simd32 * 2 + r.simd64;
  for (t = 0; t < nthreads; ++t) for (j = 0; j < prog[t].njobs; ++j) {
    char key[64]; snprintf(key, sizeof key, "%.50s@%d", prog[t].job[j].spec, simd_key);
    /* references are keyed by spec and engine selection */
    compute_ref(key, prog[t].job[j].spec, r.simd32, r.simd64);
    snprintf(prog[t].job[j].spec, sizeof prog[t].job[j].spec, "%s", key);
  }
  memset(sh, 0, offsetof(shared_t, ev));
  fflush(stdout);
#if defined __SANITIZE_THREAD__
  fprintf(stderr, "TSANRUN %s\n", r.id); fflush(stderr);
#endif
  pid = fork();
  if (!pid) {
    /* the child re-parses (prog[] specs now carry the @key suffix used to find the reference) */
    pthread_t th[MAXT]; (void)th;
    setenv("SOXR_USE_SIMD32", r.simd32 ? "1" : "0", 1); setenv("SOXR_USE_SIMD64", r.simd64 ? "1" : "0", 1);
    explicit_sched = strcmp(r.sched, "-") ? r.sched : ""; explicit_pos = 0;
    opt_tail = r.tail; opt_p = r.p; opt_relswitch = r.relswitch; rng_s = r.seed * 0x9E3779B97F4A7C15ull + 0x1234567ull; if (!rng_s) rng_s = 1;
    if (r.warm == 1 || r.warm == 2) lsx_init_fft_cache();       /* warm: 1 both caches, 2 only the double one, 3 only the float one */
    if (r.warm == 1 || r.warm == 3) lsx_init_fft_cache_f();
    for (t = 0; t < 2; ++t) { last_flen[t] = flen_of(t); last_tab[t] = tab_of(t); init_entries[t] = flen_of(t) >= 0; }
    /* the structural fact the model takes for granted: every cache has five lock words of its own */
    if (probe->nfound[0] != 5 || probe->nfound[1] != 5)
      viol("LOCK-PROBE", "the initialisers of the two caches initialise %ld and %ld lock words (5 each expected)%.0ld", probe->nfound[0], probe->nfound[1], 0);
    { int f, g, n = 0, f0 = -1, g0 = -1; for (f = 0; f < 5; ++f) for (g = 0; g < 5; ++g) if (probe->lk[0][f] && probe->lk[0][f] == probe->lk[1][g]) { if (!n++) f0 = f, g0 = g; }
      if (n) viol("LOCK-SHARED-BETWEEN-CACHES", "%ld lock word(s) belong to both caches (e.g. lock %ld of cache 0 is lock %ld of cache 1): each cache's first-use initialiser re-creates them, whatever the other cache's threads hold", n, f0, g0); }
    for (t = 0; t < MAXT; ++t) patch_cache_ev[t] = patch_len_ev[t] = -1;
    alarm(30);
    managed = 1;
    for (t = 0; t < nthreads; ++t) pthread_create(&th[t], 0, thread_main, (void *)(size_t)t);
    pthread_mutex_lock(&mu); handover(); pthread_mutex_unlock(&mu);
    for (t = 0; t < nthreads; ++t) pthread_join(th[t], 0);
    managed = 0; sh->status = 1; _exit(0);
  }
  waitpid(pid, &st, 0);
  printf("RUN %s threads=%d warm0=%d warm1=%d\n", r.id, nthreads, r.warm == 1 || r.warm == 2, r.warm == 1 || r.warm == 3);
  for (i = 0; i < sh->nev; ++i) { event_t *e = &sh->ev[i];
    /* a run that died right after this yield never told us the thread's `len` (it is back-patched at the thread's next event):
     * the event is that thread's last one and says nothing the model could check */
    if (e->kind == K_YIELD && e->name == N_REBUILD_BEGIN && e->arg == 0) continue;
    if (e->kind == K_VR) printf("V %d %s\n", e->tid, name_str[e->name]);
    else printf("E %d %d %s %s %ld %ld %ld %ld %ld %d %d %d %d %d\n", e->tid, e->cache < 0 ? 0 : e->cache, kind_name[e->kind], name_str[e->name], e->arg,
      e->flen, e->rc, e->wc, e->tab, e->h[0], e->h[1], e->h[2], e->h[3], e->h[4]); }
  printf("END\n");
  for (i = 0; i < sh->nviol; ++i) printf("VIOL %s %d %s %s\n", r.id, sh->viol[i].ev, sh->viol[i].kind, sh->viol[i].detail);
  { char status[40]; int njobs = 0;
    if (sh->status == 1) strcpy(status, "ok"); else if (sh->status == 2) strcpy(status, "deadlock"); else if (sh->status == 3) strcpy(status, "overflow");
    else if (WIFSIGNALED(st)) snprintf(status, sizeof status, WTERMSIG(st) == SIGALRM ? "timeout" : "crash:%d", WTERMSIG(st)); else snprintf(status, sizeof status, "exit:%d", WEXITSTATUS(st));
    printf("RESULT %s status=%s events=%d ndec=%d decisions=", r.id, status, sh->nev, sh->ndec);
    for (i = 0; i < sh->ndec && i < 20000; ++i) putchar('0' + sh->dec[i]);
    if (!sh->ndec) putchar('-');
    printf(" wrong=");
    for (t = 0, i = 0; t < nthreads; ++t) for (j = 0; j < prog[t].njobs; ++j, ++njobs) if (sh->wrong[t][j]) { printf("%s%d.%d", i++ ? "," : "", t, j); }
    if (!i) putchar('-');
    printf(" jobs=%d\n", njobs); }
  fflush(stdout);
}

int main(int argc, char **argv)
{
  char *line = 0; size_t cap = 0; FILE *f;
  sh = mmap(0, sizeof *sh, PROT_READ | PROT_WRITE, MAP_SHARED | MAP_ANONYMOUS, -1, 0);
  refs = mmap(0, sizeof(ref_t) * MAXREF, PROT_READ | PROT_WRITE, MAP_SHARED | MAP_ANONYMOUS, -1, 0);
  probe = mmap(0, sizeof *probe, PROT_READ | PROT_WRITE, MAP_SHARED | MAP_ANONYMOUS, -1, 0);
  if (sh == MAP_FAILED || refs == MAP_FAILED || probe == MAP_FAILED) { perror("mmap"); return 2; }
  { pid_t pid = fork(); int st;       /* probe child: learn the two caches' lock words (same addresses in every later child) */
    if (!pid) { probing = 0; lsx_init_fft_cache(); probing = 1; lsx_init_fft_cache_f(); probing = -1; _exit(0); }
    waitpid(pid, &st, 0); }
  if (argc >= 3 && !strcmp(argv[1], "batch")) {
    f = strcmp(argv[2], "-") ? fopen(argv[2], "r") : stdin; if (!f) { perror(argv[2]); return 2; }
    while (getline(&line, &cap, f) > 0) do_line(line);
    return 0;
  }
  if (argc >= 3 && !strcmp(argv[1], "line")) { do_line(argv[2]); return 0; }
  fprintf(stderr, "usage: sched batch <file|-> | sched line '<id> key=value ...'\n");
  return 2;
}
