/* C06, threads clause, real-code falsifier (called through checks/conclib.py: clips_threads).
 *
 * One multi-channel resampler, split float32 input -> split int16 output, every channel driven far over full scale for a
 * channel-specific part of the signal so that every channel saturates a different, known number of samples.  The same job is
 * run (a) with the channels processed by the OpenMP parallel regions of soxr.c (runtime num_threads = 0, omp team of <T>),
 * (b) sequentially (num_threads = 1) and (c) channel by channel through mono resamplers.  Printed (integers only):
 *
 *   CLIPS nch=<n> omp=<T> blocks=<b> blen=<l> rep=<k> par=<clip counter of (a)> seq=<of (b)> mono=<c_0> <c_1> ... sum=<sum of c_i>
 *         outdiff=<samples of (a) that differ from (b)> odone_par=<frames> odone_seq=<frames>
 *
 * With dither=1 the output conversion dithers with the shared p->seed (second unsynchronised read-modify-write of the same
 * regions); outdiff then counts output samples that depend on the thread interleaving.
 *
 * usage: clips <nch> <omp threads> <blocks> <blocklen> <reps> <dither 0|1> <irate> <orate> <recipe> [same 0|1]
 */
#include <stdio.h>
#include <stdlib.h>
#include <string.h>
#include <math.h>
#include <omp.h>
#include "soxr.h"

#define MAXCH 64

static int opt_same;
static float *make_in(int ch, int nch, size_t n)
{
  float *x = malloc(sizeof(float) * n); size_t i; unsigned s = 777u + (unsigned)ch * 131u;
  size_t loud = opt_same ? n - (size_t)ch : n * (size_t)(ch + 1) / (size_t)nch;  /* channel ch is over full scale on its first (ch+1)/nch part
                                                                                   * (same=1: on all but its last ch samples, so that the channels
                                                                                   * do equal work and reach the counter update together) */
  for (i = 0; i < n; ++i) {
    s = s * 1664525u + 1013904223u;
    double v = sin(i * (0.05 + 0.01 * ch)) + 0.2 * ((double)(s >> 8) / (1 << 24) - .5);
    x[i] = (float)(i < loud ? 6. * v : .05 * v);
  }
  return x;
}

/* run nch channels taken from in[first .. first+nch) through one resampler; returns the clip counter */
static size_t run(int nch, float **in, size_t n, int blocks, size_t blen, unsigned threads, int dither, double irate, double orate,
                  unsigned long recipe, short **out, size_t ocap, size_t *odone_total)
{
  soxr_error_t e = 0; soxr_io_spec_t io = soxr_io_spec(SOXR_FLOAT32_S, SOXR_INT16_S);
  soxr_quality_spec_t q = soxr_quality_spec(recipe, 0); soxr_runtime_spec_t rt = soxr_runtime_spec(threads);
  soxr_t s; size_t pos = 0, tot = 0, clips; int b, c;
  void const *ip[MAXCH]; void *op[MAXCH];
  if (!dither) io.flags |= SOXR_NO_DITHER;
  s = soxr_create(irate, orate, (unsigned)nch, &e, &io, &q, &rt);
  if (!s || e) { fprintf(stderr, "soxr_create failed\n"); exit(2); }
  for (b = 0; b <= blocks; ++b) {
    size_t il = b < blocks ? (pos + blen <= n ? blen : n - pos) : 0, id = 0, od = 0;
    for (c = 0; c < nch; ++c) { ip[c] = in[c] + pos; op[c] = out[c] + tot; }
    do {
      for (c = 0; c < nch; ++c) op[c] = out[c] + tot;
      e = soxr_process(s, b < blocks ? (void const *)ip : 0, il, &id, op, ocap - tot, &od);
      if (e) { fprintf(stderr, "soxr_process failed\n"); exit(2); }
      tot += od;
    } while (b == blocks && od && tot < ocap);            /* drain */
    pos += id;
  }
  clips = *soxr_num_clips(s);
  soxr_delete(s);
  *odone_total = tot;
  return clips;
}

int main(int argc, char **argv)
{
  int nch, omp_t, blocks, reps, dither, c, k; size_t blen, n, ocap; double irate, orate; unsigned long recipe;
  float *in[MAXCH]; short *o_par[MAXCH], *o_seq[MAXCH], *o_mono; size_t mono[MAXCH], sum = 0, seq, od_seq, od;
  if (argc < 10) { fprintf(stderr, "usage: clips nch omp blocks blocklen reps dither irate orate recipe\n"); return 2; }
  nch = atoi(argv[1]); omp_t = atoi(argv[2]); blocks = atoi(argv[3]); blen = (size_t)atol(argv[4]); reps = atoi(argv[5]);
  dither = atoi(argv[6]); irate = atof(argv[7]); orate = atof(argv[8]); recipe = strtoul(argv[9], 0, 10);
  opt_same = argc > 10 ? atoi(argv[10]) : 0;
  if (nch < 1 || nch > MAXCH || blocks < 1 || blen < 1) return 2;
  n = (size_t)blocks * blen; ocap = (size_t)(n * orate / irate) + 4096;
  for (c = 0; c < nch; ++c) { in[c] = make_in(c, nch, n); o_par[c] = calloc(ocap, sizeof(short)); o_seq[c] = calloc(ocap, sizeof(short)); }
  o_mono = calloc(ocap, sizeof(short));
  omp_set_dynamic(0); omp_set_num_threads(omp_t);
  seq = run(nch, in, n, blocks, blen, 1, dither, irate, orate, recipe, o_seq, ocap, &od_seq);
  for (c = 0; c < nch; ++c) { mono[c] = run(1, &in[c], n, blocks, blen, 1, dither, irate, orate, recipe, &o_mono, ocap, &od); sum += mono[c]; }
  for (k = 0; k < reps; ++k) {
    size_t par, od_par, diff = 0, i;
    for (c = 0; c < nch; ++c) memset(o_par[c], 0, ocap * sizeof(short));
    par = run(nch, in, n, blocks, blen, 0, dither, irate, orate, recipe, o_par, ocap, &od_par);
    for (c = 0; c < nch; ++c) for (i = 0; i < (od_par < od_seq ? od_par : od_seq); ++i) diff += o_par[c][i] != o_seq[c][i];
    printf("CLIPS nch=%d omp=%d blocks=%d blen=%lu rep=%d par=%lu seq=%lu mono=", nch, omp_t, blocks, (unsigned long)blen, k, (unsigned long)par, (unsigned long)seq);
    for (c = 0; c < nch; ++c) printf("%s%lu", c ? " " : "", (unsigned long)mono[c]);
    printf(" sum=%lu outdiff=%lu odone_par=%lu odone_seq=%lu\n", (unsigned long)sum, (unsigned long)diff, (unsigned long)od_par, (unsigned long)od_seq);
  }
  return 0;
}
