/* C17, free-running falsifier: real threads, no scheduler (supplements harness/conc/sched.c, whose threads switch only at the
 * hooks).  Built twice: "rel" (outputs vs serial runs under true parallelism) and "tsan" (ThreadSanitizer: every access to the
 * process-wide tables that is not ordered by the readers/writer lock is reported).  The lock shim is the default one of
 * harness/verif_stubs.c (spin locks on C11-style atomics, which ThreadSanitizer understands; releasable by another thread, as
 * ccrw2.h needs).
 *
 * The initialisers are run to completion by the main thread before the workers start (lsx_init_fft_cache, lsx_init_fft_cache_f,
 * one variable-rate resampler): the property's positive half - after initialisation no interleaving of distinct resamplers
 * misbehaves - is what is tested; the tables themselves are still empty, so first build, growth by reader->writer upgrade,
 * failed re-tests and steady-state reads all happen under real concurrency.
 *
 * usage: stress <rounds> <threads> <jobs of thread 0>/<jobs of thread 1>/... [regrow 0|1]    job syntax as in sched.c (Q:..., V:...), '+' separated;
 *        when fewer job lists than threads are given they are reused cyclically.
 * output: STRESS rounds=<r> threads=<t> jobs=<n> wrong=<n> errors=<n>      (ThreadSanitizer writes its reports to stderr)
 */
#define _GNU_SOURCE
#include <stdio.h>
#include <stdlib.h>
#include <string.h>
#include <math.h>
#include <pthread.h>
#include <unistd.h>
#include <sys/mman.h>
#include <sys/wait.h>
#include "soxr.h"
#include "filter.h"   /* lsx_init_fft_cache, lsx_init_fft_cache_f (names aliased by aliases.h) */

#define MAXT 16
#define MAXJOBS 6
#define MAXOUT 40000
#define MAXREF 32

typedef struct { int vr, recipe; double phase, irate, orate; int n; char spec[64]; } job_t;
typedef struct { size_t n; float out[MAXOUT]; int valid; char spec[64]; } ref_t;
static ref_t *refs; static int nrefs;
static job_t prog[MAXT][MAXJOBS]; static int njobs[MAXT];
static int rounds, nthreads, regrow;
static int wrong[MAXT], errors[MAXT];
static pthread_barrier_t bar;

static float *make_input(int n)
{
  float *in = malloc(sizeof(float) * (size_t)n); unsigned s = 12345; int i;
  for (i = 0; i < n; ++i) { s = s * 1664525u + 1013904223u; in[i] = (float)(0.4 * sin(i * 0.05) + 0.3 * ((double)(s >> 8) / (1 << 24) - .5)); }
  return in;
}

static int run_job(job_t const *j, float *out, size_t cap, size_t *on)
{
  float *in = make_input(j->n); soxr_error_t e = 0; size_t idone = 0; *on = 0;
  if (!j->vr) {
    soxr_quality_spec_t q = soxr_quality_spec((unsigned long)j->recipe, 0); q.phase_response = j->phase;
    e = soxr_oneshot(j->irate, j->orate, 1, in, (size_t)j->n, &idone, out, cap, on, 0, &q, 0);
  } else {
    soxr_quality_spec_t q = soxr_quality_spec(SOXR_HQ, SOXR_VR); soxr_t s; size_t od = 0, tot = 0, id;
    s = soxr_create(8, 1, 1, &e, 0, &q, 0);
    if (s) {
      soxr_set_io_ratio(s, j->irate, 0);
      e = soxr_process(s, in, (size_t)j->n, &id, out, cap, &od); tot = od;
      while (!e && tot < cap) { e = soxr_process(s, 0, 0, 0, out + tot, cap - tot, &od); if (!od) break; tot += od; }
      *on = tot;
      soxr_delete(s);
    }
  }
  free(in);
  return e ? 1 : 0;
}

static int parse_job(char const *s, job_t *j)
{
  memset(j, 0, sizeof *j); snprintf(j->spec, sizeof j->spec, "%s", s);
  if (s[0] == 'Q') { int r, n; double ph, ir, orr; if (sscanf(s, "Q:%d:%lf:%lf:%lf:%d", &r, &ph, &ir, &orr, &n) != 5) return 0;
    j->recipe = r; j->phase = ph; j->irate = ir; j->orate = orr; j->n = n; return n > 0 && n <= 8000; }
  if (s[0] == 'V') { int r, n; if (sscanf(s, "V:%d:%d", &r, &n) != 2) return 0; j->vr = 1; j->irate = r / 1000.; j->orate = 1; j->n = n; return n > 0 && n <= 8000; }
  return 0;
}

static ref_t *find_ref(char const *spec) { int i; for (i = 0; i < nrefs; ++i) if (!strcmp(refs[i].spec, spec)) return &refs[i]; return 0; }

static void *worker(void *a)
{
  int me = (int)(size_t)a, r, j; float *out = malloc(sizeof(float) * MAXOUT);
  pthread_barrier_wait(&bar);
  for (r = 0; r < rounds; ++r) {
    for (j = 0; j < njobs[me]; ++j) {
      size_t on = 0; ref_t *ref = find_ref(prog[me][j].spec);
      if (run_job(&prog[me][j], out, MAXOUT, &on)) errors[me]++;
      else if (!ref || !ref->valid || on != ref->n || memcmp(out, ref->out, on * sizeof(float))) wrong[me]++;
    }
    if (regrow && r + 1 < rounds) {
      /* all threads quiescent: drop the tables and initialise again (complete, undisturbed), so that every round goes through
       * first build and growth under concurrency, not only the first */
      pthread_barrier_wait(&bar);
      if (!me) { lsx_clear_fft_cache(); lsx_clear_fft_cache_f(); lsx_init_fft_cache(); lsx_init_fft_cache_f(); }
      pthread_barrier_wait(&bar);
    }
  }
  free(out);
  return 0;
}

int main(int argc, char **argv)
{
  char buf[600], *tp, *ts; int nlists = 0, t, j, w = 0, e = 0, total = 0; pthread_t th[MAXT]; pid_t pid; int st;
  if (argc < 4) { fprintf(stderr, "usage: stress rounds threads joblists\n"); return 2; }
  rounds = atoi(argv[1]); nthreads = atoi(argv[2]); regrow = argc > 4 ? atoi(argv[4]) : 0;
  if (nthreads < 1 || nthreads > MAXT || rounds < 1) return 2;
  snprintf(buf, sizeof buf, "%s", argv[3]);
  for (tp = strtok_r(buf, "/", &ts); tp && nlists < MAXT; tp = strtok_r(0, "/", &ts), ++nlists) {
    char *jp, *js;
    for (jp = strtok_r(tp, "+", &js); jp; jp = strtok_r(0, "+", &js)) {
      if (njobs[nlists] >= MAXJOBS || !parse_job(jp, &prog[nlists][njobs[nlists]])) { fprintf(stderr, "bad job %s\n", jp); return 2; }
      njobs[nlists]++;
    }
  }
  if (!nlists) return 2;
  for (t = nlists; t < nthreads; ++t) { njobs[t] = njobs[t % nlists]; memcpy(prog[t], prog[t % nlists], sizeof prog[t]); }
  /* serial references, each job alone in a fresh process */
  refs = mmap(0, sizeof(ref_t) * MAXREF, PROT_READ | PROT_WRITE, MAP_SHARED | MAP_ANONYMOUS, -1, 0);
  if (refs == MAP_FAILED) return 2;
  for (t = 0; t < nlists; ++t) for (j = 0; j < njobs[t]; ++j) if (!find_ref(prog[t][j].spec) && nrefs < MAXREF) {
    ref_t *r = &refs[nrefs++]; memset(r, 0, sizeof *r); snprintf(r->spec, sizeof r->spec, "%s", prog[t][j].spec);
    fflush(stdout);
    pid = fork();
    if (!pid) { if (!run_job(&prog[t][j], r->out, MAXOUT, &r->n)) r->valid = 1; _exit(0); }
    waitpid(pid, &st, 0);
  }
  /* complete, undisturbed initialisation of everything that is initialised lazily */
  lsx_init_fft_cache(); lsx_init_fft_cache_f();
  { job_t v; size_t on; float *o = malloc(sizeof(float) * MAXOUT); parse_job("V:1000:64", &v); run_job(&v, o, MAXOUT, &on); free(o); }
  pthread_barrier_init(&bar, 0, (unsigned)nthreads);
  for (t = 0; t < nthreads; ++t) pthread_create(&th[t], 0, worker, (void *)(size_t)t);
  for (t = 0; t < nthreads; ++t) pthread_join(th[t], 0);
  for (t = 0; t < nthreads; ++t) { w += wrong[t]; e += errors[t]; total += njobs[t] * rounds; }
  printf("STRESS rounds=%d threads=%d jobs=%d wrong=%d errors=%d\n", rounds, nthreads, total, w, e);
  fflush(stdout);
  _exit(0);       /* not exit(): with regrow the library has registered LSX_CLEAR_FFT_CACHE with atexit more than once */
}
