/* C20 fault-enumeration harness: fail the k-th allocation of a job, for every k, on the real library.
 *
 * Interposition: linked with  -Wl,--wrap=malloc,--wrap=calloc,--wrap=realloc,--wrap=free  so that every allocation
 * call made by an object of libsoxr.a (direct, through the rdft/SIMD function tables, through fifo.h macros) lands in
 * the __wrap_* functions below.  (`nm -u` of the library objects shows malloc/calloc/realloc/free only: the SIMD
 * "aligned malloc" of util-simd.c / pffft is malloc(size + alignment); no posix_memalign / aligned_alloc.)
 * libc's and libgomp's own allocations are not wrapped and are not counted.
 *
 * One invocation = one job.  The parent never calls the library; every run happens in a freshly forked child, so the
 * process-wide state of the library (FFT cache tables, VR coefficient tables) is pristine in every run and the
 * allocation sequence of a run with "fail the k-th call" is identical to the recorded one up to call k.
 *
 *   run -1          : nothing fails; every allocation call is logged with its call stack (return addresses; the
 *                     check symbolises them with addr2line -i) and every free with the ordinal of the block freed
 *   run k (k >= 0)  : the k-th allocation call (0-based, counted over malloc/calloc/realloc while the library is
 *                     executing an API call of the job) returns NULL; the script continues as far as it can
 *
 * Lines written by a child start with '@'; everything else in a child's output (sanitizer reports) is passed through.
 *   @A <ord> op=<i> <fn> <size> old=<ord|-> failed=<0|1> bt=<hex,hex,...>      an allocation call
 *   @F <ord> op=<i>                                                            free of the block created by call <ord>
 *   @BADFREE op=<i> bt=...                                                     free of a pointer that is not a live block
 *   @CP op=<i> <token> err=<0|1> hit=<0|1> live=<n> ords=<o,o,...> msg=<text>  after each API call of the script
 *   @POKE err=<0|1> odone=<n>                                                  soxr_process on an object whose op failed
 *   @DONE live=<n> ords=<...>                                                  after soxr_delete
 * The parent frames each run:  @RUN k=<k>  ...  @END status=<exit:N|sig:N|timeout>
 *
 * A block keeps the ordinal of the call that created it across successful reallocs (a resized block is the same
 * logical block; this is how the Lean model counts live blocks).
 */
#define _GNU_SOURCE
#include <stdio.h>
#include <stdlib.h>
#include <string.h>
#include <stdarg.h>
#include <stdint.h>
#include <math.h>
#include <signal.h>
#include <unistd.h>
#include <poll.h>
#include <time.h>
#include <errno.h>
#include <execinfo.h>
#include <fcntl.h>
#include <sys/wait.h>
#include "soxr.h"
#include "soxr-lsr.h"

void * __real_malloc(size_t);
void * __real_calloc(size_t, size_t);
void * __real_realloc(void *, size_t);
void   __real_free(void *);

/* ------------------------------------------------------------------ child-side state */
static int out_fd = 1;
static volatile int armed;        /* the library is executing an API call of the job */
static long counter;              /* allocation calls so far (armed only) */
static long fail_at = -1;         /* ordinal of the call to fail; -1: none */
static long fail_from = -1;       /* >= 0: every call with ordinal >= fail_from fails (persistent exhaustion) */
static int cur_op;
static int hit_op = -1;           /* op during which the failing call happened */
static int verbose_from;          /* log @A/@F lines for ordinals >= this */

#define MAXBLK 65536
static struct {void * p; long ord;} blk[MAXBLK];
static int nblk;

static void emit(char const * fmt, ...)
{
  char buf[8192];
  va_list ap;
  int n, off = 0;
  va_start(ap, fmt);
  n = vsnprintf(buf, sizeof buf, fmt, ap);
  va_end(ap);
  if (n < 0) return;
  if (n >= (int)sizeof buf) n = (int)sizeof buf - 1, buf[n - 1] = '\n';
  while (off < n) {
    ssize_t w = write(out_fd, buf + off, (size_t)(n - off));
    if (w <= 0) { if (errno == EINTR) continue; break; }
    off += (int)w;
  }
}

static int bt_string(char * dst, size_t cap)
{
  void * bt[24];
  int i, n = backtrace(bt, 24), off = 0;
  dst[0] = 0;
  for (i = 0; i < n && off + 20 < (int)cap; ++i)   /* the check drops the frames of this file after symbolising */
    off += snprintf(dst + off, cap - (size_t)off, "%s%lx", i ? "," : "", (unsigned long)(uintptr_t)bt[i]);
  return off;
}

static int find(void * p)
{
  int i;
  for (i = nblk - 1; i >= 0; --i) if (blk[i].p == p) return i;
  return -1;
}

static void add(void * p, long ord)
{
  if (nblk < MAXBLK) blk[nblk].p = p, blk[nblk].ord = ord, ++nblk;
}

static void del(int i) { blk[i] = blk[--nblk]; }

/* returns 1 when this call has to fail; logs the call */
static int tick(char const * fn, size_t size, long old, long * ord)
{
  int fail;
  *ord = counter++;
  fail = *ord == fail_at || (fail_from >= 0 && *ord >= fail_from);
  if (fail && hit_op < 0) hit_op = cur_op;
  if (*ord >= verbose_from) {
    char bts[600], olds[24];
    int was = armed;
    armed = 0;                     /* backtrace() may allocate on first use */
    bt_string(bts, sizeof bts);
    armed = was;
    if (old >= 0) snprintf(olds, sizeof olds, "%ld", old); else strcpy(olds, "-");
    emit("@A %ld op=%d %s %lu old=%s failed=%d bt=%s\n", *ord, cur_op, fn, (unsigned long)size, olds, fail, bts);
  }
  return fail;
}

void * __wrap_malloc(size_t n)
{
  long ord; void * p;
  if (!armed) return __real_malloc(n);
  if (tick("malloc", n, -1, &ord)) return 0;
  p = __real_malloc(n);
  if (p) add(p, ord);
  return p;
}

void * __wrap_calloc(size_t a, size_t b)
{
  long ord; void * p;
  if (!armed) return __real_calloc(a, b);
  if (tick("calloc", a * b, -1, &ord)) return 0;
  p = __real_calloc(a, b);
  if (p) add(p, ord);
  return p;
}

void * __wrap_realloc(void * q, size_t n)
{
  long ord; void * p; int i = -1;
  if (!armed) return __real_realloc(q, n);
  if (q) i = find(q);
  if (tick("realloc", n, i >= 0 ? blk[i].ord : -1, &ord)) return 0;   /* old block stays allocated, as realloc specifies */
  if (q && i < 0) {
    char bts[600];
    armed = 0; bt_string(bts, sizeof bts); armed = 1;
    emit("@BADFREE op=%d realloc bt=%s\n", cur_op, bts);
    return 0;
  }
  p = __real_realloc(q, n);
  if (p) { if (i >= 0) blk[i].p = p; else add(p, ord); }
  return p;
}

void __wrap_free(void * q)
{
  int i;
  if (!q) return;
  if (!armed) {
    i = find(q);
    if (i >= 0) del(i);            /* atexit handlers etc. */
    __real_free(q);
    return;
  }
  i = find(q);
  if (i < 0) {                     /* double free / free of a pointer the library does not own */
    char bts[600];
    armed = 0; bt_string(bts, sizeof bts); armed = 1;
    emit("@BADFREE op=%d free bt=%s\n", cur_op, bts);
    return;
  }
  if (blk[i].ord >= verbose_from || fail_at < 0) emit("@F %ld op=%d\n", blk[i].ord, cur_op);
  del(i);
  __real_free(q);
}

/* ------------------------------------------------------------------ the job */
typedef struct {
  double ir, orate, phase, prec, pb, sb;
  unsigned ch;
  unsigned long q, qf, rtf;
  int simd, ldft, mdft, split, coefkb;
  int lsr;                          /* >= 0: the job goes through the libsamplerate-compatible wrapper (soxr-lsr.c) with this converter
                                     * type; lsrcb: through its callback API (src_callback_new / src_callback_read) */
  int lsrcb;
  char ops[1024];
  int timeout;
} job_t;

static double num(char const * s) { return strtod(s, 0); }

static void checkpoint(int op, char const * tok, soxr_error_t e)
{
  char ords[6000];
  int i, off = 0;
  /* live ordinals, ascending */
  long last = -1;
  ords[0] = 0;
  for (;;) {
    long best = -1;
    for (i = 0; i < nblk; ++i) if (blk[i].ord > last && (best < 0 || blk[i].ord < best)) best = blk[i].ord;
    if (best < 0 || off + 16 > (int)sizeof ords) break;
    off += snprintf(ords + off, sizeof ords - (size_t)off, "%s%ld", off ? "," : "", best);
    last = best;
  }
  emit("@CP op=%d %s err=%d hit=%d live=%d ords=%s msg=%s\n", op, tok, e != 0, hit_op == op, nblk, ords, e ? e : "-");
}

#define NBUF (1 << 17)
static float inbuf[NBUF], outbuf[NBUF * 2];
static float * inptrs[16], * outptrs[16];

static void fill_input(void)
{
  int i;
  for (i = 0; i < NBUF; ++i)
    inbuf[i] = (float)(.4 * sin(i * .013) + .3 * sin(i * .41) + .1 * ((i * 2654435761u >> 8 & 0xffff) / 65536. - .5));
}

/* the same script through the wrapper: Z = src_new / src_callback_new (a soxr_create with both rates open, plus soxr_set_input_fn),
 * P = src_process / src_callback_read at the job's ratio (the first one completes the deferred initialisation), K = src_reset,
 * F = end of input and drain, D = src_delete.  An SRC_STATE is the soxr object itself. */
static long lsr_cb_left;
static long lsr_cb(void * st, float * * data) { long n = lsr_cb_left > 1000? 1000 : lsr_cb_left; (void)st; *data = inbuf; lsr_cb_left -= n; return n; }

static int run_lsr_job(job_t const * j)
{
  SRC_STATE * s = 0;
  char ops[1024], * tok, * save = 0;
  int op = 0, failed_op = 0, err = 0;
  unsigned ch = j->ch ? j->ch : 1;
  size_t maxframes = NBUF / ch;
  double ratio = j->orate / j->ir;
  soxr_error_t e = 0;
  if (j->simd >= 0) setenv("SOXR_USE_SIMD", j->simd ? "1" : "0", 1); else unsetenv("SOXR_USE_SIMD");
  strcpy(ops, j->ops);
  for (tok = strtok_r(ops, ",", &save); tok; tok = strtok_r(0, ",", &save), ++op) {
    char kind = tok[0];
    char const * a1 = strchr(tok, ':'), * a2 = a1 ? strchr(a1 + 1, ':') : 0;
    cur_op = op; e = 0; err = 0;
    if (kind == 'Z' || kind == 'C') {
      armed = 1;
      s = j->lsrcb ? src_callback_new(lsr_cb, j->lsr, (int)ch, &err, 0) : src_new(j->lsr, (int)ch, &err);
      armed = 0;
      e = err ? "lsr: error code returned" : 0;
      checkpoint(op, tok, e);
      if (!s) {
        if (!err) emit("@NOTE null handle without error code\n");
        emit("@DONE live=%d created=0\n", nblk);
        checkpoint(op + 1, "end", 0);
        return 0;
      }
      if (err) emit("@NOTE handle returned together with an error code\n");
      continue;
    }
    if (!s) break;
    if (kind == 'P' || kind == 'F') {
      size_t n = kind == 'F' ? 0 : a1 ? (size_t)num(a1 + 1) : 1000, blocks = kind == 'F' ? 200 : a2 ? (size_t)num(a2 + 1) : 1, b;
      if (n > maxframes) n = maxframes;
      for (b = 0; b < blocks && !e; ++b) {
        if (j->lsrcb) {
          long got;
          lsr_cb_left = kind == 'F' ? 0 : (long)n;
          armed = 1; got = src_callback_read(s, ratio, (long)(maxframes * 2 / (ratio > 1 ? 1 : 1)), outbuf); armed = 0;
          if (src_error(s)) e = src_strerror(src_error(s));
          if (kind == 'F' && !got) break;
        } else {
          SRC_DATA d; memset(&d, 0, sizeof d);
          d.data_in = inbuf; d.data_out = outbuf; d.input_frames = (long)n; d.output_frames = (long)(maxframes * 2);
          d.src_ratio = ratio; d.end_of_input = kind == 'F';
          armed = 1; err = src_process(s, &d); armed = 0;
          if (err) e = src_strerror(err);
          if (kind == 'F' && !d.output_frames_gen) break;
        }
      }
    }
    else if (kind == 'K') { armed = 1; err = src_reset(s); armed = 0; if (err) e = src_strerror(err); }
    else if (kind == 'I' || kind == 'R' || kind == 'N') continue;      /* the wrapper passes the ratio with every call */
    else if (kind == 'D') break;
    else { emit("@NOTE unknown op %s\n", tok); continue; }
    checkpoint(op, tok, e);
    if (e) { failed_op = 1; ++op; break; }
  }
  cur_op = op;
  if (s && failed_op) {
    SRC_DATA d; memset(&d, 0, sizeof d);
    d.data_in = inbuf; d.data_out = outbuf; d.input_frames = 16; d.output_frames = 64; d.src_ratio = ratio;
    armed = 1; err = src_process(s, &d); armed = 0;
    emit("@POKE err=%d odone=%lu sticky=%d\n", err != 0, (unsigned long)d.output_frames_gen, src_error(s) != 0);
  }
  armed = 1; src_delete(s); armed = 0;
  emit("@DONE live=%d created=1\n", nblk);
  checkpoint(op, "end", 0);
  return 0;
}

static int run_job(job_t const * j)
{
  if (j->lsr >= 0) return run_lsr_job(j);
  {
  soxr_t s = 0;
  soxr_error_t e = 0;
  soxr_quality_spec_t q = soxr_quality_spec(j->q, j->qf);
  soxr_runtime_spec_t rt = soxr_runtime_spec(1);
  soxr_io_spec_t io = soxr_io_spec(j->split ? SOXR_FLOAT32_S : SOXR_FLOAT32_I, j->split ? SOXR_FLOAT32_S : SOXR_FLOAT32_I);
  char ops[1024], * tok, * save = 0;
  int op = 0, failed_op = 0;
  unsigned c;
  unsigned ch = j->ch ? j->ch : 1;
  size_t maxframes = NBUF / ch;

  if (j->phase >= 0) q.phase_response = j->phase;
  if (j->prec >= 0) q.precision = j->prec;
  if (j->pb >= 0) q.passband_end = j->pb;
  if (j->sb >= 0) q.stopband_begin = j->sb;
  rt.flags = j->rtf;
  if (j->ldft > 0) rt.log2_large_dft_size = (unsigned)j->ldft;
  if (j->mdft > 0) rt.log2_min_dft_size = (unsigned)j->mdft;
  if (j->coefkb > 0) rt.coef_size_kbytes = (unsigned)j->coefkb;
  if (j->simd >= 0) setenv("SOXR_USE_SIMD", j->simd ? "1" : "0", 1); else unsetenv("SOXR_USE_SIMD");
  for (c = 0; c < 16; ++c) inptrs[c] = inbuf + c * (NBUF / 16), outptrs[c] = outbuf + c * (NBUF * 2 / 16);
  if (j->split) maxframes = NBUF / 16;

  strcpy(ops, j->ops);
  for (tok = strtok_r(ops, ",", &save); tok; tok = strtok_r(0, ",", &save), ++op) {
    char kind = tok[0];
    char const * a1 = strchr(tok, ':'), * a2 = a1 ? strchr(a1 + 1, ':') : 0, * a3 = a2 ? strchr(a2 + 1, ':') : 0;
    cur_op = op;
    e = 0;
    if (kind == 'C' || kind == 'Z' || kind == 'Y') {
      /* C: ordinary create;  Z: both rates 0 (no resampler built yet);  Y: zero channels (ditto) */
      armed = 1;
      s = soxr_create(kind == 'Z' ? 0 : j->ir, kind == 'Z' ? 0 : j->orate, kind == 'Y' ? 0 : j->ch, &e, &io, &q, &rt);
      armed = 0;
      checkpoint(op, tok, e);
      if (!s) {                      /* error reported through a NULL handle */
        if (!e) emit("@NOTE null handle without error string\n");
        emit("@DONE live=%d created=0\n", nblk);
        checkpoint(op + 1, "end", 0);
        return 0;
      }
      if (e) emit("@NOTE handle returned together with an error string\n");
      emit("@ENGINE %s\n", soxr_engine(s));
      continue;
    }
    if (!s) break;
    if (kind == 'P') {              /* P:<frames per block>:<blocks>[:<olen>]  stream input */
      size_t n = a1 ? (size_t)num(a1 + 1) : 1000, blocks = a2 ? (size_t)num(a2 + 1) : 1, b;
      size_t olen = a3 ? (size_t)num(a3 + 1) : maxframes * 2, id, od;
      if (n > maxframes) n = maxframes;
      if (olen > maxframes * 2) olen = maxframes * 2;
      for (b = 0; b < blocks && !e; ++b) {
        armed = 1;
        e = soxr_process(s, j->split ? (void *)inptrs : (void *)inbuf, n, &id, j->split ? (void *)outptrs : (void *)outbuf, olen, &od);
        armed = 0;
      }
    }
    else if (kind == 'F') {         /* F[:<olen>]  end of input, drain */
      size_t olen = a1 ? (size_t)num(a1 + 1) : maxframes * 2, od = 1; int guard = 0;
      if (olen > maxframes * 2) olen = maxframes * 2;
      while (!e && od && guard++ < 1000) {
        armed = 1;
        e = soxr_process(s, 0, 0, 0, j->split ? (void *)outptrs : (void *)outbuf, olen, &od);
        armed = 0;
      }
    }
    else if (kind == 'K') { armed = 1; e = soxr_clear(s); armed = 0; }
    else if (kind == 'R' || kind == 'I') {  /* R:<io ratio>:<slew>  soxr_set_io_ratio */
      armed = 1; e = soxr_set_io_ratio(s, a1 ? num(a1 + 1) : j->ir / j->orate, a2 ? (size_t)num(a2 + 1) : 0); armed = 0;
    }
    else if (kind == 'N') { armed = 1; e = soxr_set_num_channels(s, a1 ? (unsigned)num(a1 + 1) : j->ch); armed = 0; }
    else if (kind == 'D') break;
    else { emit("@NOTE unknown op %s\n", tok); continue; }
    checkpoint(op, tok, e);
    if (e) { failed_op = 1; ++op; break; }
  }
  cur_op = op;
  if (s && failed_op) {             /* the object must still be usable as an object in error state */
    size_t id = 0, od = 0;
    soxr_error_t e2;
    armed = 1;
    e2 = soxr_process(s, j->split ? (void *)inptrs : (void *)inbuf, 16, &id, j->split ? (void *)outptrs : (void *)outbuf, 64, &od);
    (void)soxr_delay(s);
    armed = 0;
    emit("@POKE err=%d odone=%lu sticky=%d\n", e2 != 0, (unsigned long)od, soxr_error(s) != 0);
    if (fail_from < 0) {            /* a caller that retries: soxr_clear again (its allocations succeed now), then use the object.  Whatever
                                     * soxr_clear answers, nothing may crash; a torn-down object has to keep refusing. */
      soxr_error_t e3, e4;
      armed = 1;
      e3 = soxr_clear(s);
      id = od = 0;
      e4 = soxr_process(s, j->split ? (void *)inptrs : (void *)inbuf, 16, &id, j->split ? (void *)outptrs : (void *)outbuf, 64, &od);
      armed = 0;
      emit("@POKE2 clear=%d err=%d sticky=%d\n", e3 != 0, e4 != 0, soxr_error(s) != 0);
    }
  }
  armed = 1;
  soxr_delete(s);
  armed = 0;
  emit("@DONE live=%d created=1\n", nblk);
  checkpoint(op, "end", 0);
  return 0;
  }
}

/* ------------------------------------------------------------------ parent */
static double now(void)
{
  struct timespec t;
  clock_gettime(CLOCK_MONOTONIC, &t);
  return (double)t.tv_sec + 1e-9 * (double)t.tv_nsec;
}

static int ntimeouts;

static void one_run(job_t const * j, long k, long from)
{
  int fd[2];
  pid_t pid;
  static char buf[1 << 22];
  size_t len = 0;
  int status = 0, timed_out = 0;
  double deadline;

  if (pipe(fd)) { perror("pipe"); exit(2); }
  fflush(stdout);
  pid = fork();
  if (pid < 0) { perror("fork"); exit(2); }
  if (!pid) {
    close(fd[0]);
    out_fd = fd[1];
    dup2(fd[1], 2);               /* sanitizer reports travel with the log */
    dup2(fd[1], 1);
    fail_at = k; fail_from = from;
    verbose_from = k < 0 && from < 0 ? 0 : (int)(from >= 0 ? from : k);
    alarm((unsigned)j->timeout + 5);
    run_job(j);
    _exit(0);                     /* no atexit handlers: the FFT cache tables stay where they are */
  }
  close(fd[1]);
  deadline = now() + (ntimeouts >= 3 ? 3 : j->timeout);   /* a job that hangs again and again is not waited for at length */
  for (;;) {
    struct pollfd pfd;
    double left = deadline - now();
    int r;
    pfd.fd = fd[0]; pfd.events = POLLIN;
    if (left <= 0) { timed_out = 1; kill(pid, SIGKILL); break; }
    r = poll(&pfd, 1, (int)(left * 1000) + 1);
    if (r < 0 && errno == EINTR) continue;
    if (r > 0) {
      ssize_t n = read(fd[0], buf + len, sizeof buf - 1 - len);
      if (n <= 0) break;
      len += (size_t)n;
      if (len >= sizeof buf - 1) len = sizeof buf - 4096;   /* keep reading, overwrite the tail */
    }
  }
  close(fd[0]);
  waitpid(pid, &status, 0);
  buf[len] = 0;
  printf("@RUN k=%ld from=%ld\n", k, from);
  fwrite(buf, 1, len, stdout);
  if (len && buf[len - 1] != '\n') putchar('\n');
  if (timed_out) ++ntimeouts, printf("@END status=timeout\n");
  else if (WIFSIGNALED(status)) printf("@END status=sig:%d\n", WTERMSIG(status));
  else printf("@END status=exit:%d\n", WEXITSTATUS(status));
  fflush(stdout);
}

int main(int argc, char * * argv)
{
  job_t j;
  long kfrom = 0, kto = -1, n = 0;
  int i, record = 1, persist = 0;
  void * warm[4];
  memset(&j, 0, sizeof j);
  j.ir = 1; j.orate = 2; j.phase = -1; j.prec = -1; j.pb = -1; j.sb = -1; j.ch = 1; j.q = SOXR_HQ; j.simd = -1;
  j.timeout = 20;
  strcpy(j.ops, "C,P:1000:2,F,D");
  j.lsr = -1;
  for (i = 1; i < argc; ++i) {
    char * a = argv[i], * v = strchr(a, '=');
    if (!v) continue;
    *v++ = 0;
    if (!strcmp(a, "ir")) j.ir = num(v);
    else if (!strcmp(a, "or")) j.orate = num(v);
    else if (!strcmp(a, "ch")) j.ch = (unsigned)num(v);
    else if (!strcmp(a, "q")) j.q = strtoul(v, 0, 0);
    else if (!strcmp(a, "qf")) j.qf = strtoul(v, 0, 0);
    else if (!strcmp(a, "rtf")) j.rtf = strtoul(v, 0, 0);
    else if (!strcmp(a, "phase")) j.phase = num(v);
    else if (!strcmp(a, "prec")) j.prec = num(v);
    else if (!strcmp(a, "pb")) j.pb = num(v);
    else if (!strcmp(a, "sb")) j.sb = num(v);
    else if (!strcmp(a, "simd")) j.simd = (int)num(v);
    else if (!strcmp(a, "ldft")) j.ldft = (int)num(v);
    else if (!strcmp(a, "mdft")) j.mdft = (int)num(v);
    else if (!strcmp(a, "coefkb")) j.coefkb = (int)num(v);
    else if (!strcmp(a, "split")) j.split = (int)num(v);
    else if (!strcmp(a, "lsr")) j.lsr = (int)num(v);
    else if (!strcmp(a, "lsrcb")) j.lsrcb = (int)num(v);
    else if (!strcmp(a, "ops")) strncpy(j.ops, v, sizeof j.ops - 1);
    else if (!strcmp(a, "timeout")) j.timeout = (int)num(v);
    else if (!strcmp(a, "record")) record = (int)num(v);
    else if (!strcmp(a, "persist")) persist = (int)num(v);
    else if (!strcmp(a, "k")) {               /* k=all | k=none | k=<a>-<b> | k=<a> */
      if (!strcmp(v, "all")) kfrom = 0, kto = -2;
      else if (!strcmp(v, "none")) kfrom = 0, kto = -1;
      else { char * d = strchr(v, '-'); kfrom = atol(v); kto = d ? atol(d + 1) : kfrom; }
    }
  }
  if (j.ch > 16) j.ch = 16;
  fill_input();
  backtrace(warm, 4);              /* loads libgcc's unwinder before any child is forked */
  setvbuf(stdout, 0, _IOFBF, 1 << 16);
  if (record || kto == -2) {
    /* the recording run also tells how many allocation calls the job makes */
    int fd[2]; pid_t pid; long cnt = 0; int status;
    if (record) one_run(&j, -1, -1);
    if (pipe(fd)) return 2;
    fflush(stdout);
    pid = fork();
    if (!pid) {
      int devnull = open("/dev/null", 1);
      close(fd[0]);
      out_fd = devnull; dup2(devnull, 1); dup2(devnull, 2);
      verbose_from = 1 << 30; fail_at = -1;
      alarm((unsigned)j.timeout + 5);
      run_job(&j);
      if (write(fd[1], &counter, sizeof counter) < 0) _exit(3);
      _exit(0);
    }
    close(fd[1]);
    if (read(fd[0], &cnt, sizeof cnt) != sizeof cnt) cnt = 0;
    close(fd[0]);
    waitpid(pid, &status, 0);
    n = cnt;
    printf("@COUNT %ld\n", n);
    if (kto == -2) kto = n - 1;
  }
  for (; kfrom <= kto; ++kfrom)
    if (persist) one_run(&j, -1, kfrom); else one_run(&j, kfrom, -1);
  printf("@FIN\n");
  return 0;
}
