/* Trace harness for the variable-rate engine (vr32.c) and for the decision logic of soxr_set_io_ratio (soxr.c).
 *
 * Reads one operation per line on stdin, executes it on the real library (this TU #includes soxr.c so that the
 * private struct is visible; everything else comes from libsoxr.a built from the same working tree) and prints
 *   "> <line>"  the same operation in the Lean driver's protocol (fed to `soxr_vr`)
 *   "< <line>"  what the real code did, in the form the driver prints it (diffed against the model's answer)
 *   "I <line>"  information for the falsifiers (never diffed)
 * The state of the engine comes from the hook `_soxr_verif_vr_state` (vr32.c, under SOXR_VERIF): every control field
 * and every FIFO occupancy; the two doubles are re-printed as IEEE bit patterns (the hook prints them with %.17g,
 * which round-trips).  Buffers handed to the library are exactly sized heap blocks so that the sanitizer build sees
 * any overrun.
 *
 * Ops:
 *   create <max_ratio>            variable-rate resampler (SOXR_HQ | SOXR_VR, 1 channel, float32 in/out)
 *   crcreate <recipe> <ir> <or>   constant-rate resampler (for the refusal clause)
 *   lazycreate <vr> | nullcreate | nochan <vr> | seterr   API corner states: ratio 0 at creation / no resampler /
 *                                 zero channels / sticky error
 *   sig sine <omega> <amp> <ph> | sig ramp <scale> | sig dc <v> | sig noise
 *   ratio <r> <slew>              soxr_set_io_ratio
 *   proc <ilen> <olen>            soxr_process(in, ilen, &idone, out, olen, &odone)
 *   procn <ilen> <olen>           soxr_process(in, ilen, NULL, out, olen, &odone): all of ilen is taken
 *   flush <olen>                  soxr_process(0, 0, 0, out, olen, &odone)
 *   dump <path>                   from now on append every delivered frame (raw float32) to <path>
 *   hash                          FNV hash of everything delivered so far
 */
#include "soxr.c"
#include <stdio.h>
#include <stdint.h>
#include <inttypes.h>

void _soxr_verif_vr_state(void * p, FILE * f);

static soxr_t S;
static int is_vr;
static uint64_t pos, total_out, hash = 0xcbf29ce484222325ull;
static FILE * dumpf;
static int sig_kind; static double sig_a, sig_b, sig_c;   /* 0 sine(omega, amp, phase) 1 ramp(scale) 2 dc(v) 3 noise */

static double sig(uint64_t i)
{
  switch (sig_kind) {
    case 1: return (double)i / sig_a;
    case 2: return sig_a;
    case 3: { uint64_t z = i + 0x9E3779B97F4A7C15ull; z ^= z >> 30; z *= 0xBF58476D1CE4E5B9ull; z ^= z >> 27;
              z *= 0x94D049BB133111EBull; z ^= z >> 31; return ((double)(z >> 11) / 9007199254740992. - .5) * .9; }
    default: return sig_b * sin(sig_a * (double)i + sig_c);
  }
}

static uint64_t bits(double d) { union {double d; uint64_t u;} x; x.d = d; return x.u; }

static void print_state(void)
{
  char * buf = 0, * t; size_t sz = 0; FILE * m;
  if (!S || !is_vr || !S->resamplers) { printf(" S none"); return; }
  m = open_memstream(&buf, &sz);
  _soxr_verif_vr_state(S->resamplers[0], m);
  fclose(m);
  printf(" S");
  for (t = strtok(buf, " \n"); t; t = strtok(0, " \n")) {
    if (!strcmp(t, "VR")) continue;
    if (!strncmp(t, "newr=", 5) || !strncmp(t, "defr=", 5)) printf(" %.5s%" PRIu64, t, bits(strtod(t + 5, 0)));
    else printf(" %s", t);
  }
  free(buf);
}

static int err_code(soxr_error_t e)
{
  if (!e) return 0;
  if (!strcmp(e, "invalid soxr_t pointer")) return 1;
  if (!strcmp(e, "must set # channels before O/I ratio")) return 3;
  if (!strcmp(e, "I/O ratio out-of-range")) return 4;
  if (!strcmp(e, "varying O/I ratio is not supported with this quality level")) return 5;
  if (!strcmp(e, "verif sticky error")) return 2;
  return 9;
}

static void absorb(float const * out, size_t n)
{
  size_t i, b;
  for (i = 0; i < n; ++i) { unsigned char const * p = (unsigned char const *)(out + i); for (b = 0; b < 4; ++b) hash = (hash ^ p[b]) * 0x100000001B3ull; }
  if (dumpf) fwrite(out, sizeof(float), n, dumpf);
  total_out += n;
}

static void do_process(int flush, size_t il, size_t ol)   /* flush: 0 proc, 1 flush, 2 procn (no idone: everything is taken) */
{
  float * in = 0, * out = malloc(ol * sizeof(float) + !ol); size_t id = 0, od = 0, i; soxr_error_t e;
  if (flush != 1) { in = malloc(il * sizeof(float) + !il); for (i = 0; i < il; ++i) in[i] = (float)sig(pos + i); }
  if (flush == 2) id = il;
  e = flush == 1? soxr_process(S, 0, 0, 0, out, ol, &od) : soxr_process(S, in, il, flush == 2? 0 : &id, out, ol, &od);
  if (od <= ol) absorb(out, od);
  pos += id;
  free(in); free(out);
  if (!is_vr) { printf("I proc id=%zu od=%zu%s%s\n", id, od, e? " error " : "", e? e : ""); return; }   /* constant-rate engine: no VR model op */
  if (flush == 1) printf("> vr.flush %zu\n", ol); else printf("> vr.proc %zu %zu\n", id, ol);
  printf("< R od=%zu mis=0 neg=0", od);
  print_state();
  printf("\n");
  if (e) printf("I error %s\n", e);
}

int main(void)
{
  static char line[1 << 16]; char * t[64]; int nt;
  setvbuf(stdout, 0, _IOFBF, 1 << 16);
  sig_kind = 0; sig_a = .05; sig_b = .5; sig_c = .3;
  while (fgets(line, sizeof(line), stdin)) {
    char * s = strtok(line, " \t\r\n");
    nt = 0;
    while (s && nt < 64) { t[nt++] = s; s = strtok(0, " \t\r\n"); }
    if (!nt) continue;
    if (!strcmp(t[0], "create") && nt >= 2) {
      double mx = strtod(t[1], 0); soxr_error_t e; soxr_quality_spec_t q = soxr_quality_spec(SOXR_HQ, SOXR_VR);
      if (S) soxr_delete(S);
      S = soxr_create(mx, 1, 1, &e, 0, &q, 0);
      pos = total_out = 0; hash = 0xcbf29ce484222325ull;
      is_vr = S && !strcmp(soxr_engine(S), "vr32");
      printf("> vr.create %" PRIu64 "\n", bits(mx));
      if (!S) printf("< CREATE err %s\n", e);
      else { printf("< C vr=%d", is_vr); print_state(); printf("\n"); }
    }
    else if (!strcmp(t[0], "crcreate") && nt >= 4) {
      soxr_error_t e; soxr_quality_spec_t q = soxr_quality_spec(strtoul(t[1], 0, 0), 0);
      if (S) soxr_delete(S);
      S = soxr_create(strtod(t[2], 0), strtod(t[3], 0), 1, &e, 0, &q, 0);
      pos = total_out = 0; hash = 0xcbf29ce484222325ull; is_vr = 0;
      printf("I crcreate %s engine=%s\n", S? "ok" : e, S? soxr_engine(S) : "-");
    }
    else if (!strcmp(t[0], "lazycreate")) {   /* ratio 0 at creation: the engine is made by the first soxr_set_io_ratio */
      soxr_error_t e; soxr_quality_spec_t q = soxr_quality_spec(SOXR_HQ, nt > 1 && atoi(t[1])? SOXR_VR : 0);
      if (S) soxr_delete(S);
      S = soxr_create(0, 0, 1, &e, 0, &q, 0); is_vr = 0;
      pos = total_out = 0; hash = 0xcbf29ce484222325ull;
      printf("I lazycreate %s\n", S? "ok" : e);
    }
    else if (!strcmp(t[0], "nullcreate")) { if (S) soxr_delete(S); S = 0; is_vr = 0; printf("I null\n"); }
    else if (!strcmp(t[0], "nochan")) {
      soxr_error_t e; soxr_quality_spec_t q = soxr_quality_spec(SOXR_HQ, nt > 1 && atoi(t[1])? SOXR_VR : 0);
      if (S) soxr_delete(S);
      S = soxr_create(nt > 2? strtod(t[2], 0) : 2, 1, 0, &e, 0, &q, 0); is_vr = 0;
      printf("I nochan %s\n", S? "ok" : e);
    }
    else if (!strcmp(t[0], "seterr")) { if (S) S->error = "verif sticky error"; printf("I seterr\n"); }
    else if (!strcmp(t[0], "sig") && nt >= 2) {
      sig_kind = !strcmp(t[1], "ramp")? 1 : !strcmp(t[1], "dc")? 2 : !strcmp(t[1], "noise")? 3 : 0;
      sig_a = nt > 2? strtod(t[2], 0) : 1; sig_b = nt > 3? strtod(t[3], 0) : 1; sig_c = nt > 4? strtod(t[4], 0) : 0;
    }
    else if (!strcmp(t[0], "ratio") && nt >= 3) {
      double r = strtod(t[1], 0); size_t slew = (size_t)strtoull(t[2], 0, 10); soxr_error_t e;
      /* the decision logic of soxr_set_io_ratio, observed from outside: */
      int valid = S != 0, sticky = S && S->error, nch = S? (int)S->num_channels : 0, inited = S && S->channel_ptrs, vr = S && S->control_block[8];
      uint64_t cur = S? bits(S->io_ratio) : 0;
      e = soxr_set_io_ratio(S, r, slew);
      printf("> api.set valid=%d sticky=%d nch=%d inited=%d vr=%d cur=%" PRIu64 " r=%" PRIu64 " slew=%zu\n", valid, sticky, nch, inited, vr, cur, bits(r), slew);
      printf("< A res=%d cur=%" PRIu64 "\n", err_code(e), S? bits(S->io_ratio) : 0);
      if (S && !inited && S->channel_ptrs && vr) {   /* first ratio of a resampler created with ratio 0: initialise() */
        is_vr = !strcmp(soxr_engine(S), "vr32");
        printf("> vr.create %" PRIu64 "\n< C vr=%d", bits(r), is_vr); print_state(); printf("\n");
      }
      else if (is_vr && !e && valid && inited) {
        printf("> vr.ratio %" PRIu64 " %zu\n<", bits(r), slew); print_state(); printf("\n");
      }
      if (e) printf("I error %s\n", e);
    }
    else if (!S) printf("I no-resampler\n");
    else if (!strcmp(t[0], "proc") && nt >= 3) do_process(0, (size_t)strtoull(t[1], 0, 10), (size_t)strtoull(t[2], 0, 10));
    else if (!strcmp(t[0], "procn") && nt >= 3) do_process(2, (size_t)strtoull(t[1], 0, 10), (size_t)strtoull(t[2], 0, 10));
    else if (!strcmp(t[0], "flush") && nt >= 2) do_process(1, 0, (size_t)strtoull(t[1], 0, 10));
    else if (!strcmp(t[0], "dump") && nt >= 2) { if (dumpf) fclose(dumpf); dumpf = fopen(t[1], "wb"); printf("I dump %s\n", dumpf? "ok" : "fail"); }
    else if (!strcmp(t[0], "hash")) printf("I hash out=%" PRIu64 " pos=%" PRIu64 " h=%016" PRIx64 " err=%s\n", total_out, pos, hash, S->error? S->error : "-");
    else printf("I bad-op %s\n", t[0]);
    fflush(stdout);
  }
  if (dumpf) fclose(dumpf);
  if (S) soxr_delete(S);
  return 0;
}
