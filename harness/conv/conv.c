/* Correspondence / falsifier harness for the format-conversion kernels (C11) and the libsamplerate array helpers (C19).
 *
 * One operation per line on stdin, one canonical line on stdout.  The same input lines are fed to the Lean driver
 * `soxr_conv` (lean/SoxrModel/Conv/Main.lean), which must print the same output lines.  Only integers are printed:
 * sample values as fixed-width lower-case hex bit patterns (f32: 8 digits, f64: 16, i32: 8 two's complement, i16: 4),
 * clip counts, the dither seed, pointer advances in elements, the x87 invalid flag.  No floats, no addresses.
 *
 *   conv <kernel> <n> <ch> <seed-hex> <flag> <hex bit patterns ...>
 *
 *   kernel  il-<e>-<o>[-dith]  _soxr_interleave (e = d) / _soxr_interleave_f (e = f); o in f32 f64 i32 i16; "-dith": a seed
 *                              pointer is passed (soxr.c does so unless SOXR_NO_DITHER).  n*ch patterns of the engine's
 *                              sample type, channel-major (channel 0's n samples, then channel 1's ...).
 *                              out: n*ch patterns of type o in memory (interleaved) order | c=clips s=seed p=advance f=flag
 *           de-<e>-<i>         _soxr_deinterleave(_f): n*ch patterns of type i in memory (interleaved) order;
 *                              out: channel-major patterns of the engine's sample type | c=0 s=seed p=advance f=flag
 *           lsr-s2f lsr-f2s lsr-i2f lsr-f2i   the four src_*_array helpers of soxr-lsr.c (ch must be 1)
 *           api-<e>-<i>-<o>-<l>[-dith]        public API: soxr_create(1, 1, ch) with unit gain, whole input in one
 *                              soxr_process call + flush; l in ii is si ss (input/output interleaved or split);
 *                              e = f: quality SOXR_HQ (float32 engine), e = d: SOXR_VHQ (float64 engine).
 *                              in: n*ch patterns of type i, channel-major; out: channel-major patterns of type o
 *                              | c=soxr_num_clips s=seed p=frames delivered f=flag
 *   flag    1: the x87 invalid flag is set on entry (stale), 0: clear (what the theorems assume)
 *
 *   sweep <kernel> <first-hex> <count> <seed-hex>   C-side exhaustive falsifier over float32 bit patterns (il-f-i16, il-f-i32,
 *                              il-f-i16-dith, lsr-f2s, lsr-f2i): real kernel against an SSE-computed oracle (nearbyint + clamp),
 *                              monotonicity, clip count; prints counts and the first few failing patterns.
 *
 * Every source and destination buffer ends exactly at an inaccessible page, so a kernel that reads or writes one
 * element too many (e.g. an unroll / loop-bound edit) faults; the fault is reported as a CRASH line naming the op. */
#include "soxr.c"
#include "soxr-lsr.h"
#include <stdio.h>
#include <stdint.h>
#include <inttypes.h>
#include <signal.h>
#include <unistd.h>
#include <sys/mman.h>
#include <fenv.h>

/* ------------------------------------------------------------------ guarded buffers */
typedef struct {void * base; size_t len; void * p;} gbuf_t;
static size_t pagesz;

static gbuf_t galloc(size_t bytes)
{
  gbuf_t g;
  size_t body = (bytes + pagesz - 1) / pagesz * pagesz;
  if (!body) body = pagesz;
  g.len = body + 2 * pagesz;
  g.base = mmap(0, g.len, PROT_READ | PROT_WRITE, MAP_PRIVATE | MAP_ANONYMOUS, -1, 0);
  if (g.base == MAP_FAILED) {fprintf(stderr, "mmap failed\n"); exit(3);}
  memset(g.base, 0xA5, g.len);
  mprotect(g.base, pagesz, PROT_NONE);                             /* page before  */
  mprotect((char *)g.base + pagesz + body, pagesz, PROT_NONE);     /* page after   */
  g.p = (char *)g.base + pagesz + body - bytes;                    /* buffer ends at the guard page */
  return g;
}
static void gfree(gbuf_t g) {munmap(g.base, g.len);}

/* ------------------------------------------------------------------ line reader / tokens */
static char * line; static size_t cap; static char * cur;
static char * tok(void)
{
  char * t;
  while (*cur == ' ' || *cur == '\t') ++cur;
  if (!*cur || *cur == '\n' || *cur == '\r') return 0;
  t = cur;
  while (*cur && *cur != ' ' && *cur != '\t' && *cur != '\n' && *cur != '\r') ++cur;
  if (*cur) *cur++ = 0;
  return t;
}
static uint64_t hexv(char const * s) {return s? strtoull(s, 0, 16) : 0;}

/* pattern source: explicit tokens (conv) or the arithmetic sequence first + k * step (convr); output: printed or hashed */
static int ranged; static uint64_t r_first, r_step, r_k; static uint64_t fnv;
static uint64_t next_pat(void) {return ranged? r_first + r_k++ * r_step : hexv(tok());}

static char opcopy[200];
static void on_fault(int sig)
{
  char buf[300]; int k = snprintf(buf, sizeof buf, "CRASH signal=%d op=%s\n", sig, opcopy);
  fflush(stdout);
  if (write(1, buf, (size_t)k) < 0) {}
  _exit(4);
}

/* ------------------------------------------------------------------ x87 invalid flag */
static void set_stale_flag(int on)
{
  __asm__ __volatile__("fnclex");
  if (on) {volatile double big = 1e30; short t; __asm__ __volatile__("fistps %0": "=m"(t): "t"(big): "st"); (void)t;}
}
static int get_flag(void) {int sw; __asm__ __volatile__("fnstsw %%ax": "=a"(sw)); return sw & 1;}

/* ------------------------------------------------------------------ types */
enum {T_F32, T_F64, T_I32, T_I16};
static int tcode(char const * s)
{ return !strcmp(s, "f32")? T_F32 : !strcmp(s, "f64")? T_F64 : !strcmp(s, "i32")? T_I32 : !strcmp(s, "i16")? T_I16 : -1; }
static size_t tsz(int t) {return t == T_F64? 8 : t == T_I16? 2 : 4;}
static void put(void * buf, int t, size_t i, uint64_t v)
{
  switch (t) {
    case T_F64: ((uint64_t *)buf)[i] = v; break;
    case T_I16: ((uint16_t *)buf)[i] = (uint16_t)v; break;
    default:    ((uint32_t *)buf)[i] = (uint32_t)v; break;
  }
}
static void pr(void const * buf, int t, size_t i)
{
  if (ranged) {
    uint64_t v = t == T_F64? ((uint64_t const *)buf)[i] : t == T_I16? ((uint16_t const *)buf)[i] : ((uint32_t const *)buf)[i];
    fnv = (fnv ^ v) * 0x100000001b3ull;
    return;
  }
  switch (t) {
    case T_F64: printf("%016" PRIx64 " ", ((uint64_t const *)buf)[i]); break;
    case T_I16: printf("%04x ", (unsigned)((uint16_t const *)buf)[i]); break;
    default:    printf("%08x ", (unsigned)((uint32_t const *)buf)[i]); break;
  }
}
static void tail(size_t clips, unsigned long seed, long adv, int flag)
{ if (ranged) printf("h=%" PRIx64 " ", fnv);
  printf("| c=%zu s=%lx p=%ld f=%d\n", clips, seed, adv, flag); }

/* ------------------------------------------------------------------ ops */
static void op_interleave(int eng_d, int otype, int dith, size_t n, unsigned ch, unsigned long seed, int fl)
{
  int st = eng_d? T_F64 : T_F32;
  gbuf_t * src = malloc(sizeof(*src) * (ch + 1)), dst = galloc(n * ch * tsz(otype));
  void const * * ptrs = malloc(sizeof(void *) * (ch + 1));
  void * d = dst.p; size_t clips, i; unsigned c; int flag;
  for (c = 0; c < ch; ++c) {
    src[c] = galloc(n * tsz(st)); ptrs[c] = src[c].p;
    for (i = 0; i < n; ++i) put(src[c].p, st, i, next_pat());
  }
  set_stale_flag(fl);
  clips = eng_d? _soxr_interleave((soxr_datatype_t)otype, &d, (double const * const *)ptrs, n, ch, dith? &seed : 0)
               : _soxr_interleave_f((soxr_datatype_t)otype, &d, (float const * const *)ptrs, n, ch, dith? &seed : 0);
  flag = get_flag();
  for (i = 0; i < n * ch; ++i) pr(dst.p, otype, i);
  tail(clips, seed, (long)(((char *)d - (char *)dst.p) / (ptrdiff_t)tsz(otype)), flag);
  for (c = 0; c < ch; ++c) gfree(src[c]);
  gfree(dst); free(src); free(ptrs);
}

static void op_deinterleave(int eng_d, int itype, size_t n, unsigned ch, unsigned long seed, int fl)
{
  int st = eng_d? T_F64 : T_F32;
  gbuf_t src = galloc(n * ch * tsz(itype)), * dst = malloc(sizeof(*dst) * (ch + 1));
  void * * ptrs = malloc(sizeof(void *) * (ch + 1));
  void const * s = src.p; size_t i; unsigned c; int flag;
  for (i = 0; i < n * ch; ++i) put(src.p, itype, i, next_pat());
  for (c = 0; c < ch; ++c) dst[c] = galloc(n * tsz(st)), ptrs[c] = dst[c].p;
  set_stale_flag(fl);
  if (eng_d) _soxr_deinterleave((double * *)ptrs, (soxr_datatype_t)itype, &s, n, ch);
  else _soxr_deinterleave_f((float * *)ptrs, (soxr_datatype_t)itype, &s, n, ch);
  flag = get_flag();
  for (c = 0; c < ch; ++c) for (i = 0; i < n; ++i) pr(dst[c].p, st, i);
  tail(0, seed, (long)(((char const *)s - (char const *)src.p) / (ptrdiff_t)tsz(itype)), flag);
  for (c = 0; c < ch; ++c) gfree(dst[c]);
  gfree(src); free(dst); free(ptrs);
}

static void op_lsr(int which, size_t n, unsigned long seed, int fl)
{
  static int const it[] = {T_I16, T_F32, T_I32, T_F32}, ot[] = {T_F32, T_I16, T_F32, T_I32};
  gbuf_t src = galloc(n * tsz(it[which])), dst = galloc(n * tsz(ot[which]));
  size_t i; int flag;
  for (i = 0; i < n; ++i) put(src.p, it[which], i, next_pat());
  set_stale_flag(fl);
  switch (which) {
    case 0: src_short_to_float_array(src.p, dst.p, (int)n); break;
    case 1: src_float_to_short_array(src.p, dst.p, (int)n); break;
    case 2: src_int_to_float_array(src.p, dst.p, (int)n); break;
    default: src_float_to_int_array(src.p, dst.p, (int)n); break;
  }
  flag = get_flag();
  for (i = 0; i < n; ++i) pr(dst.p, ot[which], i);
  tail(0, seed, (long)n, flag);
  gfree(src); gfree(dst);
}

/* pull mode ("-pull"): the input function hands the block out in pieces of at most `piece` frames */
static struct { char * base; void * * chans; size_t isz, n, pos, piece; unsigned ch; int split; void * ptrs[64]; } PULL;
static size_t pull_fn(void * st, soxr_in_t * data, size_t req)
{
  size_t k = PULL.n - PULL.pos; unsigned c;
  (void)st;
  if (k > req) k = req;
  if (k > PULL.piece) k = PULL.piece;
  if (PULL.split) { for (c = 0; c < PULL.ch; ++c) PULL.ptrs[c] = (char *)PULL.chans[c] + PULL.pos * PULL.isz; *data = PULL.ptrs; }
  else *data = PULL.base + PULL.pos * PULL.ch * PULL.isz;
  PULL.pos += k;
  return k;
}

/* hist: 3 ("-pull") = soxr_set_input_fn + soxr_output in requests that each need several rounds of the input function;
         0 = soxr_create at 1:1; 1 ("-clr") = the same, a few frames processed, soxr_clear(), then the run;
   2 ("-lazy") = soxr_create(0, 0, ...) and soxr_set_io_ratio(s, 1, 0) (deferred initialisation, as soxr-lsr.c does). */
static void op_api(int eng_d, int itype, int otype, int isplit, int osplit, int dith, size_t n, unsigned ch,
    unsigned long seed, int fl, int hist, long qsel)
{
  soxr_error_t err = 0;
  soxr_io_spec_t io = soxr_io_spec((soxr_datatype_t)(itype | (isplit? SOXR_SPLIT : 0)), (soxr_datatype_t)(otype | (osplit? SOXR_SPLIT : 0)));
  /* "-qRRFF" in the kernel name: the engine class is asked for another way (recipe RR, quality flags FF - e.g. SOXR_QQ with
   * SOXR_DOUBLE_PRECISION, the 32-bit recipe, SOXR_LQ): every way of requesting an engine must give that engine's exactness */
  soxr_quality_spec_t q = qsel >= 0? soxr_quality_spec((unsigned long)qsel >> 8, (unsigned long)qsel & 0xff) : soxr_quality_spec(eng_d? SOXR_VHQ : SOXR_HQ, 0);
  soxr_runtime_spec_t rt = soxr_runtime_spec(1);
  soxr_t s;
  size_t isz = tsz(itype), osz = tsz(otype), i, idone = 0, odone = 0, total = 0, cap_out = n + 64;
  gbuf_t * ib = malloc(sizeof(*ib) * (ch + 1)), * ob = malloc(sizeof(*ob) * (ch + 1));
  void * * ip = malloc(sizeof(void *) * (ch + 1)), * * op = malloc(sizeof(void *) * (ch + 1));
  unsigned c; int flag;
  uint64_t * vals = malloc(sizeof(*vals) * (n * ch + 1));
  if (!dith) io.flags |= SOXR_NO_DITHER;
  for (i = 0; i < n * ch; ++i) vals[i] = next_pat();          /* channel-major */
  if (isplit) for (c = 0; c < ch; ++c) {
    ib[c] = galloc(n * isz); ip[c] = ib[c].p;
    for (i = 0; i < n; ++i) put(ib[c].p, itype, i, vals[c * n + i]);
  } else {
    ib[0] = galloc(n * ch * isz);
    for (c = 0; c < ch; ++c) for (i = 0; i < n; ++i) put(ib[0].p, itype, i * ch + c, vals[c * n + i]);
  }
  if (osplit) for (c = 0; c < ch; ++c) ob[c] = galloc(cap_out * osz), op[c] = ob[c].p;
  else ob[0] = galloc(cap_out * ch * osz);
  s = hist == 2? soxr_create(0, 0, ch, &err, &io, &q, &rt) : soxr_create(1, 1, ch, &err, &io, &q, &rt);
  if (!s) {printf("ERR create %s\n", err? err : "?"); goto done;}
  if (hist == 2 && (err = soxr_set_io_ratio(s, 1., 0))) {printf("ERR set_io_ratio %s\n", err); soxr_delete(s); goto done;}
  if (hist == 1) {
    size_t warm = n < 5? n : 5;
    soxr_process(s, isplit? (void *)ip : ib[0].p, warm, &idone, osplit? (void *)op : ob[0].p, cap_out, &odone);
    if ((err = soxr_clear(s))) {printf("ERR clear %s\n", err); soxr_delete(s); goto done;}
    *soxr_num_clips(s) = 0;
  }
  s->seed = seed;
  set_stale_flag(fl);
  if (hist == 3) {
    size_t req = 7 + seed % 60;
    PULL.base = isplit? 0 : ib[0].p; PULL.chans = ip; PULL.isz = isz; PULL.n = n; PULL.pos = 0; PULL.piece = 1 + (seed >> 8) % 9;
    PULL.ch = ch; PULL.split = isplit;
    if ((err = soxr_set_input_fn(s, pull_fn, 0, 3 * PULL.piece))) {printf("ERR set_input_fn %s\n", err); soxr_delete(s); goto done;}
    while (total < cap_out) {
      void * o2[64]; void * out2; size_t want = cap_out - total < req? cap_out - total : req;
      if (osplit) {for (c = 0; c < ch; ++c) o2[c] = (char *)ob[c].p + total * osz; out2 = o2;}
      else out2 = (char *)ob[0].p + total * ch * osz;
      odone = soxr_output(s, out2, want);
      if (!odone) break;
      total += odone;
    }
    err = soxr_error(s);
  } else {
  err = soxr_process(s, isplit? (void *)ip : ib[0].p, n, &idone, osplit? (void *)op : ob[0].p, cap_out, &odone);
  total = odone;
  }
  while (hist != 3 && !err && total < cap_out) {               /* flush */
    void * o2[64]; void * out2;
    if (osplit) {for (c = 0; c < ch; ++c) o2[c] = (char *)ob[c].p + total * osz; out2 = o2;}
    else out2 = (char *)ob[0].p + total * ch * osz;
    err = soxr_process(s, 0, 0, 0, out2, cap_out - total, &odone);
    if (!odone) break;
    total += odone;
  }
  flag = get_flag();
  if (err) {printf("ERR process %s\n", err); soxr_delete(s); goto done;}
  for (c = 0; c < ch; ++c) for (i = 0; i < total; ++i)
    if (osplit) pr(ob[c].p, otype, i); else pr(ob[0].p, otype, i * ch + c);
  tail(*soxr_num_clips(s), s->seed, (long)total, flag);
  soxr_delete(s);
done:
  if (isplit) for (c = 0; c < ch; ++c) gfree(ib[c]); else gfree(ib[0]);
  if (osplit) for (c = 0; c < ch; ++c) gfree(ob[c]); else gfree(ob[0]);
  free(ib); free(ob); free(ip); free(op); free(vals);
}

/* ------------------------------------------------------------------ exhaustive float32 sweep (falsifier, C side only) */
/* Oracle computed without the x87 path: nearbyint() under the default rounding mode (SSE), clamp, NaN -> minimum. */
static long long oracle_rint(double d, long long mx, int * clipped)
{
  double r;
  *clipped = 0;
  if (d != d) {*clipped = 1; return -mx - 1;}
  r = nearbyint(d);
  if (r > (double)mx) {*clipped = 1; return mx;}
  if (r < -(double)mx - 1) {*clipped = 1; return -mx - 1;}
  return (long long)r;
}

static void op_sweep(char const * kern, uint32_t first, uint64_t count, unsigned long seed)
{
  enum {B = 4096 + 13};                          /* odd block: unrolled body and tail both run */
  int is_lsr = !strncmp(kern, "lsr-", 4), o16 = !!strstr(kern, "i16") || !strcmp(kern, "lsr-f2s");
  int dith = !!strstr(kern, "-dith"), which = !strcmp(kern, "lsr-f2s")? 1 : 3;
  long long mx = o16? 32767 : 2147483647LL;
  gbuf_t src = galloc(B * 4), dst = galloc(B * (o16? 2 : 4));
  uint64_t done = 0, bad = 0, nonmono = 0, clipbad = 0, clipped_total = 0, exact_ties = 0, maxerr_q = 0;
  long long prev = 0; int have_prev = 0; float prevx = 0;
  while (done < count) {
    size_t n = (size_t)(count - done < B? count - done : B), i, clips = 0, want_clips = 0;
    float * x = src.p; void * d = dst.p; void const * sp = src.p;
    for (i = 0; i < n; ++i) {uint32_t b = first + (uint32_t)(done + i); memcpy(&x[i], &b, 4);}
    __asm__ __volatile__("fnclex");
    if (is_lsr) {
      if (which == 1) src_float_to_short_array(src.p, dst.p, (int)n); else src_float_to_int_array(src.p, dst.p, (int)n);
    } else clips = _soxr_interleave_f(o16? SOXR_INT16 : SOXR_INT32, &d, (float const * const *)&sp, n, 1, dith? &seed : 0);
    for (i = 0; i < n; ++i) {
      long long got = o16? (long long)((int16_t *)dst.p)[i] : (long long)((int32_t *)dst.p)[i], want; int cl;
      double v = is_lsr? (double)x[i] * (double)(mx + 1) : (double)x[i];
      uint32_t b = first + (uint32_t)(done + i);
      if (is_lsr) {                                /* helpers: saturate by comparison first, NaN -> indefinite = minimum */
        want = v != v? -mx - 1 : v >= (double)mx? mx : v < -(double)mx - 1? -mx - 1 : oracle_rint(v, mx, &cl);
        if (got != want) {if (bad++ < 5) printf("BAD %s pattern=%08x got=%lld want=%lld\n", kern, b, got, want);}
      } else if (!dith) {
        want = oracle_rint(v, mx, &cl); want_clips += (size_t)cl; clipped_total += (uint64_t)cl;
        if (got != want) {if (bad++ < 5) printf("BAD %s pattern=%08x got=%lld want=%lld\n", kern, b, got, want);}
        if (!cl && fabs(v - (double)want) == .5) ++exact_ties;
      } else {                                     /* dither: within limits, |got - x| < 1.5 unless saturated */
        double lo = v - 1.5, hi = v + 1.5; int sat = got == mx || got == -mx - 1;
        if (v == v && !sat && !((double)got > lo && (double)got < hi)) {if (bad++ < 5) printf("BAD %s pattern=%08x got=%lld x=%.9g\n", kern, b, got, v);}
        if (v == v && sat && fabs(v) < (double)mx - 2) {if (bad++ < 5) printf("BAD %s pattern=%08x saturated got=%lld x=%.9g\n", kern, b, got, v);}
        if (v == v && !sat) {double e = fabs((double)got - v) * 64; if ((uint64_t)e > maxerr_q) maxerr_q = (uint64_t)e;}
      }
      /* monotone in the value: ascending patterns of one sign ascend (positive) or descend (negative) in value */
      if (!dith && v == v) {
        if (have_prev && ((prevx <= x[i] && prev > got) || (prevx >= x[i] && prev < got))) {
          if (nonmono++ < 5) printf("NONMONO %s pattern=%08x got=%lld prev=%lld\n", kern, b, got, prev);}
        prev = got, prevx = x[i], have_prev = 1;
      } else have_prev = 0;
    }
    if (!is_lsr && !dith && clips != want_clips) {if (clipbad++ < 5) printf("CLIPS %s first=%08x n=%zu got=%zu want=%zu\n", kern, first + (uint32_t)done, n, clips, want_clips);}
    done += n;
  }
  printf("SWEEP %s first=%08x count=%" PRIu64 " bad=%" PRIu64 " nonmono=%" PRIu64 " clipbad=%" PRIu64 " clipped=%" PRIu64 " ties=%" PRIu64 " maxerr64=%" PRIu64 " s=%lx\n",
      kern, first, count, bad, nonmono, clipbad, clipped_total, exact_ties, maxerr_q, seed);
  gfree(src); gfree(dst);
}

/* ------------------------------------------------------------------ main */
int main(void)
{
  ssize_t len;
  pagesz = (size_t)sysconf(_SC_PAGESIZE);
  signal(SIGSEGV, on_fault); signal(SIGBUS, on_fault); signal(SIGFPE, on_fault); signal(SIGABRT, on_fault);
  while ((len = getline(&line, &cap, stdin)) > 0) {
    char * op, * kern, * t;
    size_t n; unsigned ch; unsigned long seed; int fl;
    snprintf(opcopy, sizeof opcopy, "%.*s", (int)(len > 150? 150 : len - 1), line);
    cur = line;
    op = tok();
    if (!op) {printf("\n"); continue;}
    if (!strcmp(op, "sweep")) {
      uint32_t first; uint64_t count;
      kern = tok(); first = (uint32_t)hexv(tok()); t = tok(); count = t? strtoull(t, 0, 10) : 0; seed = hexv(tok());
      op_sweep(kern, first, count, seed); fflush(stdout); continue;
    }
    if (strcmp(op, "conv") && strcmp(op, "convr")) {printf("ERR unknown op\n"); continue;}
    ranged = !strcmp(op, "convr");
    kern = tok(); t = tok(); n = t? strtoull(t, 0, 10) : 0; t = tok(); ch = t? (unsigned)strtoul(t, 0, 10) : 1;
    seed = hexv(tok()); t = tok(); fl = t? atoi(t) : 0;
    if (ranged) r_first = hexv(tok()), r_step = hexv(tok()), r_k = 0, fnv = 0xcbf29ce484222325ull;
    if (!kern) {printf("ERR no kernel\n"); continue;}
    if (!strncmp(kern, "il-", 3) && strlen(kern) >= 8) {
      int ot = tcode((char[]){kern[5], kern[6], kern[7], 0});
      if (ot < 0 || ch < 1) {printf("ERR bad kernel\n"); continue;}
      op_interleave(kern[3] == 'd', ot, !!strstr(kern, "-dith"), n, ch, seed, fl);
    } else if (!strncmp(kern, "de-", 3) && strlen(kern) >= 8) {
      int it = tcode(kern + 5);
      if (it < 0 || ch < 1) {printf("ERR bad kernel\n"); continue;}
      op_deinterleave(kern[3] == 'd', it, n, ch, seed, fl);
    } else if (!strncmp(kern, "lsr-", 4)) {
      int w = !strcmp(kern, "lsr-s2f")? 0 : !strcmp(kern, "lsr-f2s")? 1 : !strcmp(kern, "lsr-i2f")? 2 : !strcmp(kern, "lsr-f2i")? 3 : -1;
      if (w < 0) {printf("ERR bad kernel\n"); continue;}
      op_lsr(w, n, seed, fl);
    } else if (!strncmp(kern, "api-", 4) && strlen(kern) >= 15) {
      int it = tcode((char[]){kern[6], kern[7], kern[8], 0}), ot = tcode((char[]){kern[10], kern[11], kern[12], 0});
      if (it < 0 || ot < 0 || ch < 1 || ch > 32) {printf("ERR bad kernel\n"); continue;}
      op_api(kern[4] == 'd', it, ot, kern[14] == 's', kern[15] == 's', !!strstr(kern, "-dith"), n, ch, seed, fl,
          strstr(kern, "-clr")? 1 : strstr(kern, "-lazy")? 2 : strstr(kern, "-pull")? 3 : 0,
          strstr(kern, "-q")? strtol(strstr(kern, "-q") + 2, 0, 16) : -1);
    } else printf("ERR bad kernel\n");
    fflush(stdout);
  }
  return 0;
}
