/* Sanitizer trace harness of property C07 (derived from harness/cr/trace.c; that file is not edited).
 *
 * Reads one API operation per line on stdin and executes it on the real library (this TU #includes soxr.c so that the
 * private struct is visible; everything else comes from libsoxr.a built from the same working tree).  Built with
 * ASan + UBSan, abort on the first report, asserts of the library live.  EVERY buffer handed to the library is a heap
 * block that ENDS exactly where the caller's contract says the buffer ends (ilen resp. olen frames per channel), so
 * the sanitizer sees any over-read / over-write by a single byte; `mis=k` shifts the start of each sample buffer by k
 * samples into its block (natural alignment only: what a caller may legitimately pass).  The harness itself checks
 * the reported counts (idone <= ilen, odone <= olen) and prints `C breach …` when they are violated.  Output buffers
 * are pre-filled with a pattern; after the call the harness reports how far the library wrote (`wext`, in frames):
 * the footprint model of Properties/C07 says exactly `odone` frames are written, so `wext <= odone` is diffed too.
 *
 *   create ir= or= ch= recipe= qflags= phase= prec= pb= sb= itype= otype= scale= ioflags= threads= min= large= kb= rtflags= mis= avoid=
 *          (ir=0 / or=0 / ch=0: deferred configuration, completed by setratio / setch)
 *          avoid=1 keeps the stream clear of the KNOWN findings so that they cannot mask anything else (the pinned corpus
 *          cases of checks/c07.py run with avoid=0 and hit them on purpose):
 *            F1  a plan with a power-of-two-L dft stage whose block length is not a multiple of L: the resampler is
 *                deleted at once (`< SKIP f1-plan`) and the rest of the stream does nothing;
 *            F13/F14 (variable-rate engine) a ratio change while a slew is still running is skipped, and a change to a
 *                smaller ratio is made at once (slew_len 0) instead of slewed.
 *   setch n | setratio r slew | setfn max_ilen | proc hasIn flushReq useIdone ilen olen [script…] | procnull hasIn ilen
 *   pull olen [script…] | delay | clear | delete | engine
 * script tokens: dN (supply up to N frames), e (end of input), f (failure); the last token repeats.
 *
 * Output: "< …" results, "P …" the exported plan (constant-rate engines; used to classify known findings),
 * "C breach …" contract violations seen by the harness.  A sanitizer report goes to stderr and aborts. */
#include "soxr.c"
#include "cr.h"
#include <stdio.h>
#include <stdint.h>
#include <inttypes.h>

char const * _soxr_verif_stage_kind(stage_t const * s);

static soxr_t S;
static unsigned ch = 1;
static int itype, otype;
static double ratio;             /* current io ratio as far as the harness knows (sizing, avoid=1 bookkeeping) */
static double ratio0;            /* the ratio the resampler was initialised with (soxr_clear returns to it) */
static uint64_t pos;
static unsigned mis;
static int is_cr, is_vr;
static int avoid;
static uint64_t slew_left;       /* output frames until the running slew is over (avoid=1 bookkeeping) */

static double sig(unsigned c, uint64_t i)
{
  uint64_t z = (i + 0x9E3779B97F4A7C15ull * (c + 1));
  double noise;
  z ^= z >> 30; z *= 0xBF58476D1CE4E5B9ull; z ^= z >> 27; z *= 0x94D049BB133111EBull; z ^= z >> 31;
  noise = (double)(z >> 11) / 9007199254740992. - .5;
  /* now and then full scale and beyond, so that the clipping paths of the integer conversions run */
  return ((i >> 9) & 7) == 5? 1.7 * noise * 2 : .45 * sin((double)i * (.0131 + .003 * c)) + .3 * sin((double)i * .41 + c) + .2 * noise;
}

static size_t tsize(int t) { return soxr_datatype_size((soxr_datatype_t)t); }

static void put_sample(void * buf, int type, size_t idx, double v)
{
  if (v > 1) v = 1; if (v < -1) v = -1;
  switch (type & 3) {
    case SOXR_FLOAT32: ((float *)buf)[idx] = (float)(v * 1.3); break;      /* floats may exceed full scale */
    case SOXR_FLOAT64: ((double *)buf)[idx] = v * 1.3; break;
    case SOXR_INT32: ((int32_t *)buf)[idx] = (int32_t)floor(v * 2147483647. + .5); break;
    default: ((int16_t *)buf)[idx] = (int16_t)floor(v * 32767. + .5); break;
  }
}

/* a block of `bytes` bytes whose END is the end of the heap allocation and whose start is shifted by `shift` bytes */
typedef struct {void * base; void * p;} blk_t;
static blk_t blk(size_t bytes, size_t shift)
{
  blk_t b; b.base = malloc(bytes + shift + !(bytes + shift)); b.p = (char *)b.base + shift; return b;
}

typedef struct {void * arg; blk_t * blks; unsigned n; void * * ptrs;} buf_t;

static buf_t make_buf(int type, size_t frames, int fill)
{
  buf_t r; size_t sz = tsize(type), i; unsigned c;
  if (type & SOXR_SPLIT) {
    r.n = ch; r.blks = malloc(sizeof(blk_t) * (ch + !ch));
    r.ptrs = malloc(sizeof(void *) * ch + !ch);            /* exactly ch pointers */
    for (c = 0; c < ch; ++c) {
      r.blks[c] = blk(frames * sz, mis * sz);
      r.ptrs[c] = r.blks[c].p;
      if (fill) for (i = 0; i < frames; ++i) put_sample(r.blks[c].p, type, i, sig(c, pos + i));
    }
    r.arg = r.ptrs;
  } else {
    r.n = 1; r.blks = malloc(sizeof(blk_t)); r.ptrs = 0;
    r.blks[0] = blk(frames * sz * ch, mis * sz);
    if (fill) for (i = 0; i < frames; ++i) for (c = 0; c < ch; ++c) put_sample(r.blks[0].p, type, i * ch + c, sig(c, pos + i));
    r.arg = r.blks[0].p;
  }
  return r;
}
#define PATTERN 0xA5
static void pattern_buf(buf_t * b, int type, size_t frames)
{
  unsigned c; size_t bytes = frames * tsize(type) * ((type & SOXR_SPLIT)? 1 : ch);
  for (c = 0; c < b->n; ++c) memset(b->blks[c].p, PATTERN, bytes);
}
/* number of leading frames of the buffer the library (may have) touched: position of the last byte that lost the pattern */
static size_t write_extent(buf_t * b, int type, size_t frames)
{
  unsigned c; size_t fb = tsize(type) * ((type & SOXR_SPLIT)? 1 : ch), bytes = frames * fb, ext = 0;
  for (c = 0; c < b->n; ++c) {
    unsigned char const * p = b->blks[c].p; size_t i = bytes;
    while (i && p[i - 1] == PATTERN) --i;
    if (fb && (i + fb - 1) / fb > ext) ext = (i + fb - 1) / fb;
  }
  return ext;
}

static void free_buf(buf_t * b)
{
  unsigned c;
  for (c = 0; c < b->n; ++c) free(b->blks[c].base);
  free(b->blks); free(b->ptrs); b->arg = 0;
}

/* ---------- plan export (constant-rate engines) */
static void print_plan(void)
{
  rate_t * p = (S && S->resamplers && is_cr)? (rate_t *)S->resamplers[0] : 0; int i;
  if (!p) { printf("P none\n"); return; }
  for (i = 0; i < p->num_stages; ++i) {
    stage_t * s = &p->stages[i]; char const * k = _soxr_verif_stage_kind(s);
    int isdft = !strncmp(k, "dft", 3);
    dft_filter_t * d = isdft? &s->shared->dft_filter[s->dft_filter_num] : 0;
    printf("P stage=%d kind=%s pre=%d prePost=%d preload=%d isz=%d n=%d L=%d M=%d dftLen=%d numTaps=%d postPeak=%d blockLen=%d hiprec=%d\n",
        i, k, s->pre, s->pre_post, s->preload, s->input_size, s->n, s->L, isdft? s->step.integer : 0,
        d? d->dft_length : 0, d? d->num_taps : 0, d? d->post_peak : 0, isdft? s->block_len : 0, (int)s->use_hi_prec_clock);
  }
}

/* ---------- scripted input function */
static char * * script; static int nscript, script_pos;
static buf_t fn_buf; static int fn_live;

/* what THIS caller has told the library (not what the library has latched): no input is offered after end-of-input */
static int said_eoi;

static size_t input_fn(void * state, soxr_in_t * data, size_t req)
{
  char const * tok = script_pos < nscript? script[script_pos] : (nscript? script[nscript - 1] : "e");
  size_t n = 0;
  (void)state;
  ++script_pos;
  if (fn_live) { free_buf(&fn_buf); fn_live = 0; }          /* the previous block dies: a stale read is a use-after-free */
  if (tok[0] == 'f') { *data = 0; return 0; }
  if (tok[0] == 'd') { n = (size_t)strtoull(tok + 1, 0, 10); if (n > req) n = req; }
  if (!n) { *data = &S; said_eoi = 1; return 0; }
  fn_buf = make_buf(itype, n, 1); fn_live = 1;
  pos += n;
  *data = fn_buf.arg;
  return n;
}

static char * kvget(char * * t, int nt, char const * key)
{
  int i; size_t kl = strlen(key);
  for (i = 0; i < nt; ++i) if (!strncmp(t[i], key, kl) && t[i][kl] == '=') return t[i] + kl + 1;
  return 0;
}
static double kvd(char * * t, int nt, char const * key, double def) { char * v = kvget(t, nt, key); return v? strtod(v, 0) : def; }
static unsigned long kvu(char * * t, int nt, char const * key, unsigned long def) { char * v = kvget(t, nt, key); return v? strtoul(v, 0, 0) : def; }

static void after_init(void)
{
  char const * e;
  if (!S || !S->resamplers) { printf("< pending\n"); return; }
  e = soxr_engine(S);
  is_cr = e[0] == 'c' && e[1] == 'r'; is_vr = e[0] == 'v';
  S->seed = 1; slew_left = 0; ratio0 = ratio;
  printf("< READY engine=%s\n", e);
  print_plan();
  if (avoid && is_cr) {
    rate_t * p = (rate_t *)S->resamplers[0]; int i;
    for (i = 0; i < p->num_stages; ++i) {
      stage_t * s = &p->stages[i];
      if (!strncmp(_soxr_verif_stage_kind(s), "dft", 3) && s->L >= 2 && !(s->L & (s->L - 1)) && s->block_len % s->L) {
        printf("< SKIP f1-plan\n"); soxr_delete(S); S = 0; return;
      }
    }
  }
}

static void do_create(char * * t, int nt)
{
  soxr_quality_spec_t q; soxr_io_spec_t io; soxr_runtime_spec_t rt; double v, ir, orr; soxr_error_t err = 0;
  ir = kvd(t, nt, "ir", 1); orr = kvd(t, nt, "or", 1); ch = (unsigned)kvu(t, nt, "ch", 1);
  q = soxr_quality_spec(kvu(t, nt, "recipe", SOXR_HQ), kvu(t, nt, "qflags", 0));
  if ((v = kvd(t, nt, "phase", -1)) >= 0) q.phase_response = v;
  if ((v = kvd(t, nt, "prec", -1)) >= 0) q.precision = v;
  if ((v = kvd(t, nt, "pb", -1)) >= 0) q.passband_end = v;
  if ((v = kvd(t, nt, "sb", -1)) >= 0) q.stopband_begin = v;
  itype = (int)kvu(t, nt, "itype", SOXR_FLOAT32_I); otype = (int)kvu(t, nt, "otype", SOXR_FLOAT32_I);
  io = soxr_io_spec((soxr_datatype_t)itype, (soxr_datatype_t)otype);
  io.scale = kvd(t, nt, "scale", 1); io.flags = kvu(t, nt, "ioflags", 0);
  rt = soxr_runtime_spec((unsigned)kvu(t, nt, "threads", 1));
  rt.log2_min_dft_size = (unsigned)kvu(t, nt, "min", rt.log2_min_dft_size);
  rt.log2_large_dft_size = (unsigned)kvu(t, nt, "large", rt.log2_large_dft_size);
  rt.coef_size_kbytes = (unsigned)kvu(t, nt, "kb", rt.coef_size_kbytes);
  rt.flags = kvu(t, nt, "rtflags", 0);
  mis = (unsigned)kvu(t, nt, "mis", 0); avoid = (int)kvu(t, nt, "avoid", 0);
  if (S) soxr_delete(S);
  S = soxr_create(ir, orr, ch, &err, &io, &q, &rt);
  pos = 0; ratio = ir != 0 && orr != 0? ir / orr : 0; is_cr = 0; said_eoi = 0;
  if (!S) { printf("< CREATE err %s\n", err); return; }
  printf("< CREATE ok\n");
  after_init();
}

static void run_process(int hasIn, int flushReq, int useIdone, size_t ilen, size_t olen, char * * scr, int nscr, int is_pull, int null_out)
{
  buf_t in, out; size_t idone = 0, odone = 0, wext = 0; soxr_error_t e = 0; int have_in = 0, have_out = 0;
  script = scr; nscript = nscr; script_pos = 0;
  if (!S->resamplers) { printf("< not-initialised\n"); return; }
  if (hasIn && said_eoi) { hasIn = 0; flushReq = 0; ilen = 0; }   /* no input after end-of-input (outside the contract) */
  if (!null_out) { out = make_buf(otype, olen, 0); have_out = 1; pattern_buf(&out, otype, olen); }
  if (is_pull) odone = soxr_output(S, out.arg, olen);
  else {
    if (hasIn) { in = make_buf(itype, ilen, 1); have_in = 1; }
    e = soxr_process(S, hasIn? in.arg : 0, flushReq && hasIn? ~ilen : ilen, useIdone? &idone : 0, null_out? 0 : out.arg, null_out? 0 : olen, &odone);
    if (!useIdone) idone = hasIn && !S->error? ilen : 0;
    if (!hasIn || (flushReq && idone == ilen)) said_eoi = 1;
    pos += idone;
    if (have_in) free_buf(&in);
  }
  if (fn_live) { free_buf(&fn_buf); fn_live = 0; }
  if (have_out) { wext = write_extent(&out, otype, olen); free_buf(&out); }
  slew_left = slew_left > odone? slew_left - odone : 0;
  if (idone > ilen) printf("C breach idone=%zu ilen=%zu\n", idone, ilen);
  if (odone > olen) printf("C breach odone=%zu olen=%zu\n", odone, olen);
  if (wext > odone) printf("C extent wext=%zu odone=%zu\n", wext, odone);
  printf("< R id=%zu od=%zu wext=%zu err=%s fl=%d\n", idone, odone, wext, e? e : (S->error? S->error : "-"), S->flushing);
}

int main(void)
{
  static char line[1 << 16]; char * t[512]; int nt;
  setvbuf(stdout, 0, _IOLBF, 1 << 12);
  while (fgets(line, sizeof(line), stdin)) {
    char * s = strtok(line, " \t\r\n");
    nt = 0;
    while (s && nt < 512) { t[nt++] = s; s = strtok(0, " \t\r\n"); }
    if (!nt) continue;
    printf("# %s\n", t[0]);
    if (!strcmp(t[0], "create")) do_create(t + 1, nt - 1);
    else if (!S) printf("< no-resampler\n");
    else if (!strcmp(t[0], "delete")) { soxr_delete(S); S = 0; printf("< ok delete\n"); }
    else if (!strcmp(t[0], "setch") && nt >= 2) {
      unsigned n = (unsigned)strtoul(t[1], 0, 10); int was = S->resamplers != 0;
      soxr_error_t e = soxr_set_num_channels(S, n);
      if (!e || !was) ch = S->num_channels;
      printf("< setch %s\n", e? e : "ok"); if (!was) after_init();
    }
    else if (!strcmp(t[0], "setratio") && nt >= 3) {
      double r = strtod(t[1], 0); int was = S->resamplers != 0; size_t slew = (size_t)strtoull(t[2], 0, 10);
      soxr_error_t e;
      if (avoid && was && is_vr) {
        if (slew_left) { printf("< setratio skipped slew-active\n"); continue; }
        if (r < ratio) slew = 0;
      }
      e = soxr_set_io_ratio(S, r, slew);
      if (!e) { ratio = r; if (was && is_vr) slew_left = slew; }
      printf("< setratio %s\n", e? e : "ok"); if (!was) after_init();
    }
    else if (!strcmp(t[0], "setfn") && nt >= 2) { soxr_set_input_fn(S, input_fn, 0, (size_t)strtoull(t[1], 0, 10)); printf("< ok setfn\n"); }
    else if (!strcmp(t[0], "proc") && nt >= 6)
      run_process(atoi(t[1]), atoi(t[2]), atoi(t[3]), (size_t)strtoull(t[4], 0, 10), (size_t)strtoull(t[5], 0, 10), t + 6, nt - 6, 0, 0);
    else if (!strcmp(t[0], "procnull") && nt >= 3)
      run_process(atoi(t[1]), 0, 1, (size_t)strtoull(t[2], 0, 10), 0, 0, 0, 0, 1);
    else if (!strcmp(t[0], "pull") && nt >= 2)
      run_process(0, 0, 0, 0, (size_t)strtoull(t[1], 0, 10), t + 2, nt - 2, 1, 0);
    else if (!strcmp(t[0], "delay")) printf("< DELAY %.17g\n", soxr_delay(S));
    else if (!strcmp(t[0], "engine")) printf("< ENGINE %s\n", S->resamplers? soxr_engine(S) : "-");
    else if (!strcmp(t[0], "clear")) {
      soxr_error_t e = soxr_clear(S);
      if (!e && !S->resamplers && ratio > 0) e = soxr_set_io_ratio(S, ratio, 0);   /* recipes without RESET_ON_CLEAR */
      if (S->resamplers) S->seed = 1;
      pos = 0; slew_left = 0; ratio = ratio0; said_eoi = 0;                      /* soxr_clear re-creates with the initial ratio */
      printf("< clear %s\n", e? e : "ok");
    }
    else printf("< bad-op %s\n", t[0]);
  }
  if (S) soxr_delete(S);
  printf("# end\n");
  return 0;
}
