/* Micro-harness for fifo.h: executes the op lines of the `soxr_fifo` protocol (see lean/SoxrModel/Fifo/Main.lean) on the
 * REAL header from /repo/src and prints the same canonical lines as the Lean byte-level model.
 *
 *   create <item_size> <fifo_min> | reserve <n> | write <n> | read <n> | trim_to <n> | trim_by <n> | clear | dump | gen
 *   ->  b=<begin> e=<end> a=<allocation> r=<offset|null|-> occ=<fifo_occupancy> h=<FNV-1a of the bytes read | ->
 *
 * fifo.h lets FIFO_MIN be predefined; the check builds this file once with the header's own value and a few times with
 * small values (-DFIFO_MIN=…) so that compaction and growth happen every few ops.  Compiled with ASan/UBSan: the block
 * is allocated by fifo.h itself (malloc/realloc of exactly `allocation` bytes), so an overrun of the block by the
 * header's own memmove/memcpy, or by this harness writing n items through a returned pointer, aborts the run. */
#include <stdio.h>
#include <stdlib.h>
#include <string.h>
#include <stdint.h>
#include <inttypes.h>
#define FIFO_SIZE_T int              /* as cr.h and vr32.c instantiate it */
#include "fifo.h"

static fifo_t F; static int have; static uint64_t w;

static unsigned char stream_byte(uint64_t k) { return (unsigned char)((k * 167 + 13) % 251); }
static uint64_t fnv(unsigned char const * p, size_t n)
{
  uint64_t h = 0xCBF29CE484222325ull; size_t i;
  for (i = 0; i < n; ++i) h = (h ^ p[i]) * 0x100000001B3ull;
  return h;
}
static void line(char const * r, int has_h, uint64_t h)
{
  printf("b=%zu e=%zu a=%zu r=%s occ=%d h=", F.begin, F.end, F.allocation, r, (int)fifo_occupancy(&F));
  if (has_h) printf("%" PRIu64 "\n", h); else printf("-\n");
}

int main(void)
{
  char op[64]; char buf[256]; long long a, b; char r[32];
  setvbuf(stdout, 0, _IOFBF, 1 << 16);
  while (fgets(buf, sizeof(buf), stdin)) {
    int n = sscanf(buf, "%63s %lld %lld", op, &a, &b);
    if (n < 1) continue;
    if (!strcmp(op, "gen")) { printf("gen fifoMin=%lu ptrSize=%lu\n", (unsigned long)FIFO_MIN, (unsigned long)sizeof(void *)); continue; }
    if (!strcmp(op, "create") && n >= 3) {
      if (have) fifo_delete(&F);
      if ((unsigned long)b != (unsigned long)FIFO_MIN) { printf("fifo-min-mismatch compiled=%lu asked=%lld\n", (unsigned long)FIFO_MIN, b); continue; }
      if (fifo_create(&F, (int)a)) { printf("alloc-failed\n"); return 3; }
      have = 1; w = 0; line("-", 0, 0); continue;
    }
    if (!have) { printf("no-fifo\n"); continue; }
    if (!strcmp(op, "reserve") && n >= 2) {
      size_t len = (size_t)a * F.item_size, i;
      unsigned char * p = fifo_reserve(&F, (int)a);
      for (i = 0; i < len; ++i) p[i] = stream_byte(w + i);     /* what a kernel does with the reserved items */
      w += len;
      sprintf(r, "%zu", (size_t)((char *)p - F.data)); line(r, 0, 0);
    }
    else if (!strcmp(op, "write") && n >= 2) {
      size_t len = (size_t)a * F.item_size, i;
      unsigned char * src = malloc(len + !len), * p;            /* exactly-sized source */
      for (i = 0; i < len; ++i) src[i] = stream_byte(w + i);
      w += len;
      p = fifo_write(&F, (int)a, src);
      free(src);
      sprintf(r, "%zu", (size_t)((char *)p - F.data)); line(r, 0, 0);
    }
    else if (!strcmp(op, "read") && n >= 2) {
      unsigned char * p = fifo_read(&F, (int)a, NULL);
      if (!p) line("null", 0, 0);
      else { sprintf(r, "%zu", (size_t)((char *)p - F.data)); line(r, 1, fnv(p, (size_t)a * F.item_size)); }
    }
    else if (!strcmp(op, "trim_to") && n >= 2) { fifo_trim_to(&F, (int)a); line("-", 0, 0); }
    else if (!strcmp(op, "trim_by") && n >= 2) { fifo_trim_by(&F, (int)a); line("-", 0, 0); }
    else if (!strcmp(op, "clear")) { fifo_clear(&F); line("-", 0, 0); }
    else if (!strcmp(op, "dump")) line("-", 1, fnv((unsigned char *)F.data + F.begin, F.end - F.begin));
    else printf("bad-op\n");
  }
  if (have) fifo_delete(&F);
  return 0;
}
