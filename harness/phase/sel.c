/* Correspondence harness of area `Phase` (C14): the real `lsx_fir_to_phase`, `lsx_make_lpf`, `lsx_design_lpf` (filter.o of
 * the working tree, unmodified object code) and the real `dft_stage_init` (this TU #includes cr.c to reach the static
 * function) against the Lean model lean/SoxrModel/Phase/Model.lean.
 *
 *   sel mode=sel seed=<n> count=<n>     selection step of lsx_fir_to_phase
 *   sel mode=dft seed=<n> count=<n>     dft_stage_init arithmetic
 *   sel mode=lpf seed=<n> count=<n>     lsx_make_lpf symmetry (bit for bit)
 *
 * Lines "> ..." are fed verbatim to the Lean driver (soxr_phase); the line that follows, "< ..." (every field must agree)
 * or "<~ ..." (the fields listed must agree), is what the real code did.  "D key bucket" lines are the distribution of
 * the generated inputs; "X ..." lines are direct oracles on the real function (falsifier side).
 *
 * How the selection step is observed without touching the function: the link uses --wrap=_soxr_rdft, so the fourth
 * transform lsx_fir_to_phase runs (the inverse one that yields the final `work` array) can be followed by replacing the
 * array with index-valued markers: work[i] = i + 1 for i <= P, -(i + 1) * 2^-40 beyond.  The function then scales by
 * 2/work_len (exact), runs its own peak search on the markers (running sum maximal at min(P, loop bound): `peak` is
 * chosen by the generator, independently of the outputs), computes begin / end / len / post_len and copies
 * work[(begin + (phase > 50 ? len - 1 - i : i) + work_len) & (work_len - 1)]: every output tap names the index it was
 * read from.  The two rounded window lengths begin0 / end0 are floating-point expressions of (phase1, len): the harness
 * evaluates the same C expressions and hands them to the model as opaque inputs.
 * --wrap=_soxr_fir_to_phase records the length dft_stage_init hands to the transform (num_taps as designed) and what the
 * transform hands back (length and post_len before dft_stage_init appends its trailing zeros). */
#include "cr.c"
#include <stdio.h>
#include <stdint.h>
#include <inttypes.h>

extern fn_t _soxr_rdft64_cb[];

/* ------------------------------------------------------------------ interposition */
static int g_in_sel, g_calls, g_marker, g_wl;
static long g_P;
void __real__soxr_rdft(int n, int isgn, double * a, int * ip, double * w);
void __wrap__soxr_rdft(int n, int isgn, double * a, int * ip, double * w)
{
  __real__soxr_rdft(n, isgn, a, ip, w);
  if (g_in_sel && ++g_calls == 4) {
    g_wl = n;
    if (g_marker) {
      int i; double sc = .5 * n;
      for (i = 0; i < n; ++i) a[i] = (i <= g_P? (double)(i + 1) : -(double)(i + 1) * 0x1p-40) * sc;
    }
  }
}
static int g_tp_calls, g_tp_len_in, g_tp_len_out, g_tp_post_out; static double g_tp_phase;
void __real__soxr_fir_to_phase(double * * h, int * len, int * post_len, double phase);
void __wrap__soxr_fir_to_phase(double * * h, int * len, int * post_len, double phase)
{
  ++g_tp_calls; g_tp_len_in = *len; g_tp_phase = phase;
  __real__soxr_fir_to_phase(h, len, post_len, phase);
  g_tp_len_out = *len; g_tp_post_out = *post_len;       /* what the transform returned, before dft_stage_init pads it */
}

static long decode(double v) { return v > 0? (long)v - 1 : (long)(-v * 0x1p40) - 1; }

/* ------------------------------------------------------------------ generator */
static uint64_t rs;
static uint64_t rnd(void) { rs ^= rs << 13; rs ^= rs >> 7; rs ^= rs << 17; return rs; }
static unsigned below(unsigned n) { return n? (unsigned)(rnd() % n) : 0; }
static double uni(double a, double b) { return a + (b - a) * (double)(rnd() >> 11) / 9007199254740992.; }
static char * kv(int argc, char * * argv, char const * key)
{
  int i; size_t kl = strlen(key);
  for (i = 1; i < argc; ++i) if (!strncmp(argv[i], key, kl) && argv[i][kl] == '=') return argv[i] + kl + 1;
  return 0;
}

static double * design(int * n, double * Fp, double * Fs, double * Fn, double * att)
{
  for (;;) {
    double * h;
    *Fp = uni(.5, .95); *Fs = uni(*Fp + .05 > 1? *Fp + .05 : 1, 1.5);
    *Fn = (double)(1 << below(4)); *att = uni(60, 180);
    if (below(4) == 0) *Fn = (double)(1 << (4 + below(3)));
    *n = 0;
    lsx_design_lpf(*Fp, *Fs, -*Fn, *att, n, -4, -1.);        /* dummy run: length only */
    if (*n > 9000 || *n < 5) continue;
    *n = 0;
    h = lsx_design_lpf(*Fp, *Fs, *Fn, *att, n, -4, -1.);
    if (h) return h;
  }
}

/* runs the real function on a copy of h; marker < 0: real data */
static double * run_tp(double const * h, int n, double phase, int marker, long P, int * len, int * post)
{
  double * c = malloc((size_t)n * sizeof(*c));
  memcpy(c, h, (size_t)n * sizeof(*c));
  *len = n; *post = -12345;
  g_in_sel = 1; g_calls = 0; g_marker = marker; g_P = P;
  __real__soxr_fir_to_phase(&c, len, post, phase);
  g_in_sel = 0;
  return c;
}

static void sel_case(int d, int nn, double const * h, int n, long P, int marker)
{
  double phase = (double)nn / d, phase1 = (phase > 50 ? 100 - phase : phase) / 50;
  int b0 = (int)((.997 - (2 - phase1) * .22) * n + .5), e0 = (int)((.997 + (0 - phase1) * .22) * n + .5);
  int len, post, i; double * o = run_tp(h, n, phase, marker, P, &len, &post);
  printf("> sel d=%d n=%d len=%d wl=%d peak=%ld b0=%d e0=%d\n", d, nn, n, g_wl, marker? P : 0, b0, e0);
  if (marker) {
    uint64_t s = 7;
    for (i = 0; i < len; ++i) s = (s * 31 + (uint64_t)decode(o[i])) % 4294967291u;
    printf("< sel g=%d cls=%s len=%d post=%d first=%ld last=%ld sum=%" PRIu64 "\n", phase > 50, phase1 == 0? "min" : phase1 == 1? "lin" : "mid",
        len, post, decode(o[0]), decode(o[len - 1]), s);
  } else if (phase1 != 0)      /* real data: the peak is not observable; len always, post_len where the model says it does not depend on it */
    printf("<~ sel g=%d len=%d post=%d\n", phase > 50, len, post);
  else printf("<~ sel g=%d len=%d\n", phase > 50, len);
  free(o);
}

static void mode_sel(int count)
{
  int c;
  for (c = 0; c < count; ++c) {
    double Fp, Fs, Fn, att; int n, d = 1 << below(3), nn, len, post, i, rev, lenm, postm;
    double * h = design(&n, &Fp, &Fs, &Fn, &att), * o, * om; long B, P;
    switch (below(8)) {
      case 0: nn = 0; break;
      case 1: nn = 25 * d; break;
      case 2: nn = 1; break;
      case 3: nn = 50 * d - 1; break;
      case 4: nn = 50 * d; break;
      default: nn = (int)below(50u * (unsigned)d);
    }
    printf("D taps %d\nD phase_class %s\nD denom %d\n", n < 100? 100 : n < 1000? 1000 : 10000, nn == 0? "min" : nn == 50 * d? "lin" : "mid", d);
    /* pass 1: markers rising all the way: the peak search stops at its own loop bound B */
    o = run_tp(h, n, (double)nn / d, 1, 1L << 40, &len, &post);
    { long first = decode(o[0]); if (first >= g_wl / 2) first -= g_wl; B = first + len - 1 - post; }
    free(o);
    if (B < 0) { printf("X bound-negative n=%d phase=%d/%d\n", n, nn, d); free(h); continue; }
    sel_case(d, nn, h, n, B, 1);                        /* the model must reproduce pass 1 with peak = B */
    P = (long)below((unsigned)B + 1);
    printf("D peak_vs_bound %s\n", P == B? "at-bound" : P == 0? "zero" : "inside");
    sel_case(d, nn, h, n, P, 1);                        /* chosen peak, phase p */
    if (nn != 50 * d) sel_case(d, 100 * d - nn, h, n, P, 1);   /* the mirror setting */
    /* real data: p and 100 - p */
    sel_case(d, nn, h, n, 0, 0);
    if (nn != 50 * d) {
      sel_case(d, 100 * d - nn, h, n, 0, 0);
      o = run_tp(h, n, (double)nn / d, 0, 0, &len, &post);
      om = run_tp(h, n, 100 - (double)nn / d, 0, 0, &lenm, &postm);
      rev = len == lenm;
      for (i = 0; rev && i < len; ++i) rev = !memcmp(&o[i], &om[len - 1 - i], sizeof(double));
      printf("X mirror n=%d phase=%d/%d len=%d lenm=%d post=%d postm=%d reversed=%d\n", n, nn, d, len, lenm, post, postm, rev);
      free(o); free(om);
    } else {
      /* phase 50 through the function itself: centred, and symmetric to rounding (not bit for bit: it went through FFTs) */
      double worst = 0, top = 0;
      o = run_tp(h, n, 50., 0, 0, &len, &post);
      for (i = 0; i < len; ++i) { double e = fabs(o[i] - o[len - 1 - i]); if (e > worst) worst = e; if (fabs(o[i]) > top) top = fabs(o[i]); }
      printf("X linear n=%d len=%d post=%d asym=%.3g top=%.3g\n", n, len, post, worst, top);
      free(o);
    }
    free(h);
  }
}

static void mode_lpf(int count)
{
  int c;
  for (c = 0; c < count; ++c) {
    int n = 1 + (int)below(below(4)? 200 : 5000), i, sym = 1; double Fc = uni(0, 1), beta = uni(0, 20), rho = below(2)? .5 : uni(.5, .75);
    double * h = lsx_make_lpf(n, Fc, beta, rho, uni(.5, 4));
    for (i = 0; h && i < n; ++i) sym = sym && !memcmp(&h[i], &h[n - 1 - i], sizeof(double));
    printf("X lpf n=%d sym=%d\nD lpf_parity %s\n", n, h? sym : -1, n & 1? "odd" : "even");
    free(h);
  }
}

static void mode_dft(int count)
{
  static int const Ls[] = {1, 2, 3, 4, 5, 8, 16, 32, 64, 128, 256, 2, 4, 8, 32};
  static int const Ms[] = {1, 1, 1, 2, 3, 4, 5};
  int c;
  for (c = 0; c < count; ++c) {
    rate_shared_t shared; stage_t st; dft_filter_t * f = &shared.dft_filter[0];
    int L = Ls[below(sizeof(Ls) / sizeof(*Ls))], M = below(3)? 1 : Ms[below(sizeof(Ms) / sizeof(*Ms))], nRaw = 0, fdok;
    double Fn = below(3)? (double)(L > M? L : M) : below(2)? (double)L : uni(1, 3) * L;
    double Fp = uni(.5, .95), Fs = below(4)? uni(Fp + .05 > 1? Fp + .05 : 1, 1.5) : uni(Fp + .03, 1), att = uni(60, 180), mult = 1;
    double phase; unsigned mn = 8 + below(6), lg = below(3)? 13 + below(6) : 8 + below(5);   /* small `large`: where the padding loop acts */
    switch (below(6)) { case 0: case 1: phase = 50; break; case 2: phase = 0; break; case 3: phase = 100; break; case 4: phase = 25; break; default: phase = (double)below(401) / 4; }
    if (below(6) == 0) {      /* short filter, large power-of-two L, small `large`: set_dft_length answers less than 32 L and the loop pads */
      L = 64 << below(3); M = 1; Fn = L; Fp = uni(.5, .6); Fs = uni(1.4, 1.5); att = uni(60, 80); mn = 8; lg = 8 + below(3);
    }
    if (L == 1 && M == 1) M = 2;
    lsx_design_lpf(Fp, Fs, -Fn, att, &nRaw, -1, -1.);       /* dummy run, modulo 1: the Kaiser estimate itself */
    if (nRaw > 20000) { --c; continue; }
    memset(&shared, 0, sizeof(shared)); memset(&st, 0, sizeof(st));
    st.shared = &shared;
    g_tp_calls = 0; g_tp_len_in = 0;
    dft_stage_init(0, Fp, Fs, Fn, att, phase, &st, L, M, &mult, mn, lg, CORE_DBL, _soxr_rdft64_cb);
    fdok = !lsx_is_power_of_2(L) || st.block_len % L == 0;
    printf("D dft_L %d\nD dft_phase %s\nD dft_FnEqL %d\nD dft_fdomain %s\nD dft_taps %d\n", L, phase == 50? "linear" : "non-linear", Fn == L,
        !lsx_is_power_of_2(L)? "time-domain" : fdok? "aligned" : "misaligned", f->num_taps < 100? 100 : f->num_taps < 1000? 1000 : 100000);
    {
      int raw = set_dft_length(f->num_taps, (int)mn, (int)lg);       /* the real (static) function: its answer before the padding loop */
      printf("D dft_padding %s\n", raw == f->dft_length? "none" : "padded");
      printf("D dft_tap_padding %s\n", !g_tp_calls? "linear" : g_tp_len_out == f->num_taps? "none" : "zeros-appended");
      printf("> dft lin=%d L=%d M=%d fnEqL=%d fsLe1=%d nRaw=%d tpLen=%d tpPost=%d dftLen=%d\n", phase == 50, L, M, Fn == L, Fs <= 1, nRaw,
          g_tp_calls? g_tp_len_out : f->num_taps, g_tp_calls? g_tp_post_out : f->post_peak, raw);
    }
    printf("< dft nDesign=%d pad=%d dftLen=%d numTaps=%d postPeak=%d preload=%d clk=%d step=%d blockLen=%d isz=%d fdok=%d\n", g_tp_calls? g_tp_len_in : f->num_taps,
        g_tp_calls? f->num_taps - g_tp_len_out : 0, f->dft_length, f->num_taps, f->post_peak, st.preload, st.at.integer, st.step.integer, st.block_len, st.input_size, fdok);
    if ((phase != 50) != (g_tp_calls == 1)) printf("X transform-calls phase=%g calls=%d\n", phase, g_tp_calls);
    {
      fn_t const * RDFT_CB = _soxr_rdft64_cb;
      rdft_free(f->coefs); rdft_delete_setup(f->dft_forward_setup); rdft_delete_setup(f->dft_backward_setup);
      rdft_free(st.dft_scratch); rdft_free(st.dft_out);
    }
  }
  { int x; for (x = 0; x <= 4100; ++x) if ((x & 63) < 6 || lsx_is_power_of_2(x)) printf("> pow2 x=%d\n< pow2 %d\n", x, lsx_is_power_of_2(x)); }
}

int main(int argc, char * * argv)
{
  char const * mode = kv(argc, argv, "mode");
  int count = kv(argc, argv, "count")? atoi(kv(argc, argv, "count")) : 10;
  rs = (kv(argc, argv, "seed")? strtoull(kv(argc, argv, "seed"), 0, 0) : 1) * 0x9E3779B97F4A7C15ull + 0x1234567;
  if (!rs) rs = 88172645463325252ull;
  rnd(); rnd();
  if (!mode) return 2;
  if (!strcmp(mode, "sel")) mode_sel(count);
  else if (!strcmp(mode, "dft")) mode_dft(count);
  else if (!strcmp(mode, "lpf")) mode_lpf(count);
  else return 2;
  printf("END\n");
  return 0;
}
