/* Measurement harness of area `Phase` (C14 phase setting; numeric falsifier half of C04 time alignment).
 *
 *   run plan key=value ...                     print the exported stage plan only
 *   run io   key=value ...   < raw doubles     one stream through soxr_process (block= frames per call), then drained;
 *                            > header, "END\n", raw doubles
 *   run sine key=value ... n=<input frames> f=<cycles per input frame> amp= ph0=<cycles> win=a:b,a:b,...
 *                                              the input is generated here (x[n] = amp*sin(2pi(f*n + ph0)), phase reduced in
 *                                              long double so that n = 1e8 costs no accuracy), the stream is processed in
 *                                              blocks and, for every output window [a,b), the least-squares fit of
 *                                              y[k] ~ A sin(2pi f t_k) + B cos(2pi f t_k),  t_k = k*irate/orate  (the property's
 *                                              time axis), is accumulated on the fly: nothing of the 1e8-frame stream is stored.
 *
 *   ir= or= recipe= qflags= prec= phase= pb= sb= rtflags= min= large= kb= block=    as in harness/cr/trace.c
 *
 * I/O is always SOXR_FLOAT64_I so that nothing but the engine's own arithmetic is between the samples and numpy.
 * The engine is chosen by the library from the environment (SOXR_USE_SIMD=0/1) as in production.
 * This TU #includes soxr.c (private struct -> stage plan); everything else comes from libsoxr.a of the same tree. */
#include "soxr.c"
#include "cr.h"
#include <stdio.h>
#include <stdint.h>
#include <inttypes.h>

char const * _soxr_verif_stage_kind(stage_t const * s);

static char * kv(int argc, char * * argv, char const * key)
{
  int i; size_t kl = strlen(key);
  for (i = 2; i < argc; ++i) if (!strncmp(argv[i], key, kl) && argv[i][kl] == '=') return argv[i] + kl + 1;
  return 0;
}
static double kvd(int c, char * * v, char const * k, double def) { char * s = kv(c, v, k); return s? strtod(s, 0) : def; }
static unsigned long kvu(int c, char * * v, char const * k, unsigned long def) { char * s = kv(c, v, k); return s? strtoul(s, 0, 0) : def; }

static void print_u128(unsigned __int128 v)
{
  char buf[48]; int i = 47; buf[i] = 0;
  if (!v) buf[--i] = '0';
  while (v) { buf[--i] = (char)('0' + (int)(v % 10)); v /= 10; }
  fputs(buf + i, stdout);
}

/* same keys as the P lines of harness/cr/trace.c (crcommon.classify_known reads kind / L / blockLen / prePost / isz) */
static void print_plan(soxr_t S)
{
  rate_t * p = (rate_t *)S->resamplers[0]; int i;
  printf("PLAN stages=%d io_ratio=%.17g\n", p->num_stages, p->io_ratio);
  for (i = 0; i < p->num_stages; ++i) {
    stage_t * s = &p->stages[i];
    char const * k = _soxr_verif_stage_kind(s), * c = strchr(k, ':');
    char kind[32]; size_t n = c? (size_t)(c - k) : strlen(k);
    int isdft; dft_filter_t * d; unsigned __int128 den, step, clk;
    if (n > 31) n = 31;
    memcpy(kind, k, n); kind[n] = 0;
    isdft = !strcmp(kind, "dft");
    d = isdft? &s->shared->dft_filter[s->dft_filter_num] : 0;
    if (!strcmp(kind, "half")) den = 1, step = 2, clk = 0;
    else if (isdft) den = 1, step = 1, clk = (unsigned)s->at.integer;
    else if (!strcmp(kind, "poly0")) den = (unsigned)s->L, step = (unsigned)s->step.integer, clk = (unsigned)s->at.integer;
    else if (s->use_hi_prec_clock) {
      den = (unsigned __int128)1 << 96;
      step = ((unsigned __int128)(uint64_t)s->step.whole << 64) | s->step.fix.ls.all;
      clk = ((unsigned __int128)(uint64_t)s->at.whole << 64) | s->at.fix.ls.all;
    } else { den = (unsigned __int128)1 << 32; step = (uint64_t)s->step.whole; clk = (uint64_t)s->at.whole; }
    printf("P stage=%d kind=%s kernel=%s pre=%d prePost=%d preload=%d isz=%d n=%d L=%d hiprec=%d den=", i, kind, c? c + 1 : "",
        s->pre, s->pre_post, s->preload, s->input_size, s->n, s->L, (int)s->use_hi_prec_clock);
    print_u128(den); printf(" step="); print_u128(step); printf(" clk="); print_u128(clk);
    printf(" M=%d dftLen=%d numTaps=%d postPeak=%d blockLen=%d\n", isdft? s->step.integer : 0,
        d? d->dft_length : 0, d? d->num_taps : 0, d? d->post_peak : 0, isdft? s->block_len : 0);
  }
}

typedef struct { long long a, b; long double ss, cc, sc, ys, yc, yy; long long n; } win_t;

int main(int argc, char * * argv)
{
  soxr_quality_spec_t q; soxr_io_spec_t io; soxr_runtime_spec_t rt; soxr_error_t err = 0; soxr_t S;
  char const * mode = argc > 1? argv[1] : "";
  double irate = kvd(argc, argv, "ir", 1), orate = kvd(argc, argv, "or", 1), v;
  size_t block = (size_t)kvu(argc, argv, "block", 1 << 16);
  char const * eng; int is_cr;

  q = soxr_quality_spec(kvu(argc, argv, "recipe", SOXR_HQ), kvu(argc, argv, "qflags", 0));
  if ((v = kvd(argc, argv, "phase", -1)) >= 0) q.phase_response = v;
  if ((v = kvd(argc, argv, "prec", -1)) >= 0) q.precision = v;
  if ((v = kvd(argc, argv, "pb", -1)) >= 0) q.passband_end = v;
  if ((v = kvd(argc, argv, "sb", -1)) >= 0) q.stopband_begin = v;
  io = soxr_io_spec(SOXR_FLOAT64_I, SOXR_FLOAT64_I);
  rt = soxr_runtime_spec(1);
  rt.log2_min_dft_size = (unsigned)kvu(argc, argv, "min", rt.log2_min_dft_size);
  rt.log2_large_dft_size = (unsigned)kvu(argc, argv, "large", rt.log2_large_dft_size);
  rt.coef_size_kbytes = (unsigned)kvu(argc, argv, "kb", rt.coef_size_kbytes);
  rt.flags = kvu(argc, argv, "rtflags", 0);

  S = soxr_create(irate, orate, 1, &err, &io, &q, &rt);
  if (!S) { printf("ERROR create %s\nEND\n", err? err : "?"); return 0; }
  eng = soxr_engine(S);
  is_cr = eng[0] == 'c' && eng[1] == 'r';
  printf("ENGINE %s\n", eng);
  printf("Q prec=%.17g phase=%.17g pb=%.17g sb=%.17g flags=%lu\n", S->q_spec.precision, S->q_spec.phase_response,
      S->q_spec.passband_end, S->q_spec.stopband_begin, S->q_spec.flags);
  if (is_cr) print_plan(S);

  if (!strcmp(mode, "plan")) { printf("END\n"); soxr_delete(S); return 0; }

  if (!strcmp(mode, "io")) {
    size_t n_in = 0, cap = 0, pos = 0, n_out = 0, ocap; unsigned char * in = 0; double * out;
    for (;;) {
      size_t got;
      if (cap - n_in < (1u << 20)) { cap = cap? cap * 2 : (1u << 22); in = realloc(in, cap); if (!in) return 2; }
      got = fread(in + n_in, 1, cap - n_in, stdin);
      if (!got) break;
      n_in += got;
    }
    n_in /= sizeof(double);
    ocap = (size_t)((double)n_in * orate / irate) + 64;
    out = malloc(ocap * sizeof(double) + 16);
    if (!out) return 2;
    while (pos < n_in) {
      size_t n = n_in - pos < block? n_in - pos : block, idone = 0, odone = 0;
      err = soxr_process(S, (double *)in + pos, n, &idone, out + n_out, ocap - n_out, &odone);
      if (err) { printf("ERROR process %s\nEND\n", err); return 0; }
      pos += idone; n_out += odone;
      if (!idone && !odone && n_out >= ocap) break;
    }
    for (;;) {
      size_t odone = 0;
      err = soxr_process(S, 0, 0, 0, out + n_out, ocap - n_out, &odone);
      if (err) { printf("ERROR flush %s\nEND\n", err); return 0; }
      n_out += odone;
      if (!odone) break;
    }
    printf("R in=%zu out=%zu\nEND\n", n_in, n_out);
    fwrite(out, sizeof(double), n_out, stdout);
    fflush(stdout);
    soxr_delete(S); free(in); free(out);
    return 0;
  }

  if (!strcmp(mode, "sine")) {
    unsigned long long N = strtoull(kv(argc, argv, "n")? kv(argc, argv, "n") : "0", 0, 10), pos = 0, k = 0;
    long double f = strtold(kv(argc, argv, "f")? kv(argc, argv, "f") : "0.01", 0), ph0 = strtold(kv(argc, argv, "ph0")? kv(argc, argv, "ph0") : "0", 0);
    long double ratio = (long double)irate / (long double)orate, twopi = 6.283185307179586476925286766559005768L;
    double amp = kvd(argc, argv, "amp", .5);
    win_t w[16]; int nw = 0, i; char * ws = kv(argc, argv, "win");
    size_t ocap = (size_t)((double)block * orate / irate) + 4096;
    double * in = malloc(block * sizeof(double)), * out = malloc(ocap * sizeof(double));
    int flushing = 0;
    if (!in || !out) return 2;
    memset(w, 0, sizeof(w));
    while (ws && *ws && nw < 16) {
      w[nw].a = strtoll(ws, &ws, 10); if (*ws == ':') ++ws;
      w[nw].b = strtoll(ws, &ws, 10); if (*ws == ',') ++ws;
      ++nw;
    }
    for (;;) {
      size_t n = 0, idone = 0, odone = 0, j;
      if (pos < N) {
        n = N - pos < block? (size_t)(N - pos) : block;
        for (j = 0; j < n; ++j) {
          long double c = f * (long double)(pos + j) + ph0;
          c -= floorl(c);
          in[j] = amp * (double)sinl(twopi * c);
        }
        err = soxr_process(S, in, n, &idone, out, ocap, &odone);
        pos += idone;
      } else { err = soxr_process(S, 0, 0, 0, out, ocap, &odone); flushing = 1; }
      if (err) { printf("ERROR process %s\nEND\n", err); return 0; }
      for (i = 0; i < nw; ++i) {
        long long a = w[i].a > (long long)k? w[i].a : (long long)k, b = w[i].b < (long long)(k + odone)? w[i].b : (long long)(k + odone), kk;
        for (kk = a; kk < b; ++kk) {
          long double c = f * ((long double)kk * ratio) + ph0, s, co; double y = out[kk - (long long)k];
          c -= floorl(c);
          s = sinl(twopi * c); co = cosl(twopi * c);
          w[i].ss += s * s; w[i].cc += co * co; w[i].sc += s * co; w[i].ys += y * s; w[i].yc += y * co; w[i].yy += (long double)y * y; ++w[i].n;
        }
      }
      k += odone;
      if (flushing && !odone) break;
    }
    printf("R in=%llu out=%llu delay_end=%.17g\n", pos, k, soxr_delay(S));
    for (i = 0; i < nw; ++i) {
      /* normal equations of the 2-parameter fit; A, B relative to the input amplitude: a perfectly aligned unity-gain
         resampler gives A = 1, B = 0 (the reference carries the input's own phase ph0) */
      long double det = w[i].ss * w[i].cc - w[i].sc * w[i].sc, A = 0, B = 0, res = 0;
      if (w[i].n > 2 && det != 0) {
        A = (w[i].ys * w[i].cc - w[i].yc * w[i].sc) / det; B = (w[i].yc * w[i].ss - w[i].ys * w[i].sc) / det;
        res = w[i].yy - A * w[i].ys - B * w[i].yc;
      }
      printf("W a=%lld b=%lld n=%lld A=%.17Lg B=%.17Lg rms=%.6Lg\n", w[i].a, w[i].b, w[i].n, A / amp, B / amp,
          w[i].n? sqrtl((res < 0? 0 : res) / (long double)w[i].n) / amp : 0.L);
    }
    printf("END\n");
    soxr_delete(S); free(in); free(out);
    return 0;
  }
  printf("ERROR bad mode\nEND\n");
  return 0;
}
