/* C13 falsifier: the same job on the portable and on the SIMD engine of one precision class, in one process.
 *
 * One job per input line (key=value):
 *   ir= or=          rates (decimal)
 *   recipe= qflags=  soxr_quality_spec(recipe, qflags);  prec= phase=  optional overrides (decimal)
 *   var=             SOXR_USE_SIMD | SOXR_USE_SIMD32 | SOXR_USE_SIMD64: set to "0" for resampler A, "1" for resampler B
 *   otype=           0 float32, 1 float64, 2 int32, 3 int16 (interleaved, one channel, SOXR_NO_DITHER)
 *   N= seed=         input frames, seed of the call schedule;  rtflags= runtime_spec.flags (coefficient interpolation order)
 *   amp= f1= f2= f3= sum of three sines (cycles per INPUT sample; 0 = absent), each of amplitude amp/3... amp in units of full scale
 * Both resamplers get identical calls (same input block, same olen).  Printed: engine names, totals, number of calls whose odone
 * differs, the largest deviation of (delay + frames delivered) between the two, final delays, clip counters, and -- over the
 * steady-state part of the output (all but the first and last eighth: many dft blocks, so that a sparse defect such as a stale block tail is inside) -- the largest sample difference, the per-tone gain difference and the residual of the
 * difference after removing the tones (least squares), all in units of full scale.  Judged by checks/c13.py.
 */
#include <stdio.h>
#include <stdlib.h>
#include <string.h>
#include <math.h>
#include <stdint.h>
#include "soxr.h"

static char * kvget(char * * t, int nt, char const * key)
{
  int i; size_t kl = strlen(key);
  for (i = 0; i < nt; ++i) if (!strncmp(t[i], key, kl) && t[i][kl] == '=') return t[i] + kl + 1;
  return 0;
}
static double kvd(char * * t, int nt, char const * key, double def) { char * v = kvget(t, nt, key); return v? strtod(v, 0) : def; }

static uint64_t rng_s;
static unsigned rnd(unsigned n) { rng_s = rng_s * 6364136223846793005ull + 1442695040888963407ull; return (unsigned)((rng_s >> 33) % n); }

typedef struct { soxr_t s; double * y; size_t n, cap; size_t cum; } side_t;

static void absorb(side_t * a, void const * out, size_t n, int otype)
{
  size_t i;
  if (a->n + n > a->cap) a->y = realloc(a->y, (a->cap = (a->n + n) * 2 + 1024) * sizeof(double));
  for (i = 0; i < n; ++i) a->y[a->n + i] =
      otype == 0? ((float const *)out)[i] : otype == 1? ((double const *)out)[i] :
      otype == 2? ((int32_t const *)out)[i] / 2147483648. : ((int16_t const *)out)[i] / 32768.;
  a->n += n; a->cum += n;
}

/* least squares fit of d[0..n) by sum_k a_k cos(w_k i) + b_k sin(w_k i); returns max |residual|, max tone amplitude in *gain */
static double fit(double const * d, size_t n, double const * w, int K, double * gain)
{
  double A[6][7]; int m = 2 * K, r, c, k; size_t i; double res = 0;
  memset(A, 0, sizeof(A));
  for (i = 0; i < n; ++i) {
    double b[6];
    for (k = 0; k < K; ++k) b[2 * k] = cos(w[k] * (double)i), b[2 * k + 1] = sin(w[k] * (double)i);
    for (r = 0; r < m; ++r) { for (c = 0; c < m; ++c) A[r][c] += b[r] * b[c]; A[r][m] += b[r] * d[i]; }
  }
  for (c = 0; c < m; ++c) {
    int p = c; double t;
    for (r = c + 1; r < m; ++r) if (fabs(A[r][c]) > fabs(A[p][c])) p = r;
    if (fabs(A[p][c]) < 1e-12) continue;
    for (k = 0; k <= m; ++k) t = A[c][k], A[c][k] = A[p][k], A[p][k] = t;
    for (r = 0; r < m; ++r) if (r != c) { double f = A[r][c] / A[c][c]; for (k = c; k <= m; ++k) A[r][k] -= f * A[c][k]; }
  }
  *gain = 0;
  for (k = 0; k < K; ++k) {
    double a = fabs(A[2 * k][2 * k]) < 1e-12? 0 : A[2 * k][m] / A[2 * k][2 * k], b = fabs(A[2 * k + 1][2 * k + 1]) < 1e-12? 0 : A[2 * k + 1][m] / A[2 * k + 1][2 * k + 1];
    double g = sqrt(a * a + b * b);
    A[2 * k][0] = a; A[2 * k + 1][0] = b;      /* keep the solution in column 0 */
    if (g > *gain) *gain = g;
  }
  for (i = 0; i < n; ++i) {
    double e = d[i];
    for (k = 0; k < K; ++k) e -= A[2 * k][0] * cos(w[k] * (double)i) + A[2 * k + 1][0] * sin(w[k] * (double)i);
    if (fabs(e) > res) res = fabs(e);
  }
  return res;
}

static unsigned long rtflags;     /* runtime_spec.flags of the job (coefficient interpolation order, SOXR_NOSMALLINTOPT) */

static soxr_t mk(double ir, double orr, soxr_quality_spec_t const * q, int otype, char const * var, char const * val, soxr_error_t * err)
{
  soxr_runtime_spec_t rt = soxr_runtime_spec(1);
  soxr_io_spec_t io = soxr_io_spec(SOXR_FLOAT64_I, otype == 0? SOXR_FLOAT32_I : otype == 1? SOXR_FLOAT64_I : otype == 2? SOXR_INT32_I : SOXR_INT16_I);
  io.flags = SOXR_NO_DITHER;
  unsetenv("SOXR_USE_SIMD"); unsetenv("SOXR_USE_SIMD32"); unsetenv("SOXR_USE_SIMD64");
  setenv(var, val, 1);
  rt.flags = rtflags;
  return soxr_create(ir, orr, 1, err, &io, q, &rt);
}

int main(void)
{
  static char line[1 << 14]; char * t[128]; int nt;
  while (fgets(line, sizeof(line), stdin)) {
    char * s = strtok(line, " \t\r\n"); char const * var;
    double ir, orr, amp, f[3], w[3], v; size_t N, fed = 0, i; int otype, K = 0, k, calls = 0, odiff = 0;
    soxr_quality_spec_t q; soxr_error_t eA = 0, eB = 0, eF = 0; side_t A, B, F, G; double delaydev = 0, dA = 0, dB = 0; long maxcumdiff = 0;
    size_t osz; size_t ambiguous = 0;
    nt = 0;
    while (s && nt < 128) { t[nt++] = s; s = strtok(0, " \t\r\n"); }
    if (!nt) continue;
    ir = kvd(t, nt, "ir", 1); orr = kvd(t, nt, "or", 1); N = (size_t)kvd(t, nt, "N", 10000); otype = (int)kvd(t, nt, "otype", 1);
    amp = kvd(t, nt, "amp", .9); rng_s = (uint64_t)kvd(t, nt, "seed", 1); rtflags = (unsigned long)kvd(t, nt, "rtflags", 0);
    f[0] = kvd(t, nt, "f1", 0); f[1] = kvd(t, nt, "f2", 0); f[2] = kvd(t, nt, "f3", 0);
    var = kvget(t, nt, "var"); if (!var) var = "SOXR_USE_SIMD";
    q = soxr_quality_spec((unsigned long)kvd(t, nt, "recipe", 4), (unsigned long)kvd(t, nt, "qflags", 0));
    if ((v = kvd(t, nt, "prec", -1)) >= 0) q.precision = v;
    if ((v = kvd(t, nt, "phase", -1)) >= 0) q.phase_response = v;
    memset(&A, 0, sizeof(A)); memset(&B, 0, sizeof(B)); memset(&F, 0, sizeof(F)); memset(&G, 0, sizeof(G));
    A.s = mk(ir, orr, &q, otype, var, "0", &eA);
    B.s = mk(ir, orr, &q, otype, var, "1", &eB);
    F.s = otype >= 2? mk(ir, orr, &q, 1, var, "0", &eF) : 0;     /* unclipped references (float64 output) for the clip comparison */
    G.s = otype >= 2? mk(ir, orr, &q, 1, var, "1", &eF) : 0;
    if (!A.s || !B.s) { printf("J err A=%s B=%s\n", eA? eA : "-", eB? eB : "-"); fflush(stdout); if (A.s) soxr_delete(A.s); if (B.s) soxr_delete(B.s); continue; }
    printf("J ok engA=%s engB=%s", soxr_engine(A.s), soxr_engine(B.s));
    osz = otype == 0? 4 : otype == 1? 8 : otype == 2? 4 : 2;
    for (k = 0; k < 3; ++k) if (f[k] > 0) w[K++] = 2 * M_PI * f[k] * ir / orr;
    while (1) {
      size_t il = fed < N? 1 + rnd(rnd(4)? 2000 : 30) : 0, ol = 1 + rnd(rnd(4)? 3000 : 40), oA = 0, oB = 0, oF = 0;
      double * in = 0; void * out = malloc(ol * 8);
      if (il > N - fed) il = N - fed;
      if (il) {
        in = malloc(il * sizeof(double));
        for (i = 0; i < il; ++i) {
          double x = 0; size_t j = fed + i;
          for (k = 0; k < 3; ++k) if (f[k] > 0) x += sin(2 * M_PI * f[k] * (double)j + .7 * k);
          in[i] = amp * x / (K? K : 1);
        }
      }
      eA = soxr_process(A.s, il? in : 0, il, 0, out, ol, &oA); absorb(&A, out, oA, otype);
      eB = soxr_process(B.s, il? in : 0, il, 0, out, ol, &oB); absorb(&B, out, oB, otype);
      if (F.s) { soxr_process(F.s, il? in : 0, il, 0, out, ol, &oF); absorb(&F, out, oF, 1); }
      if (G.s) { soxr_process(G.s, il? in : 0, il, 0, out, ol, &oF); absorb(&G, out, oF, 1); }
      (void)osz;
      fed += il; ++calls;
      if (oA != oB) ++odiff;
      if (labs((long)A.cum - (long)B.cum) > maxcumdiff) maxcumdiff = labs((long)A.cum - (long)B.cum);
      dA = soxr_delay(A.s); dB = soxr_delay(B.s);
      if (fabs((dA + (double)A.cum) - (dB + (double)B.cum)) > delaydev) delaydev = fabs((dA + (double)A.cum) - (dB + (double)B.cum));
      free(in); free(out);
      if (eA || eB) break;
      if (!il && !oA && !oB) break;
      if (calls > 200000) break;
    }
    {
      size_t n = A.n < B.n? A.n : B.n, skip = n / 8, m = n - 2 * skip; double maxdiff = 0, gain = 0, resid = 0, * d = malloc((m + 1) * sizeof(double));
      for (i = 0; i < m; ++i) { d[i] = A.y[skip + i] - B.y[skip + i]; if (fabs(d[i]) > maxdiff) maxdiff = fabs(d[i]); }
      /* phases of the basis do not matter: the fit has both quadratures */
      if (m > 64 && K) resid = fit(d, m, w, K, &gain); else resid = maxdiff;
      /* samples whose unclipped values on the two engines straddle full scale (or lie within 2^-14 of it): only there may the clip decisions differ */
      if (F.s && G.s) for (i = 0; i < F.n && i < G.n; ++i) {
        double a = fabs(F.y[i]), b = fabs(G.y[i]), lo = a < b? a : b, hi = a < b? b : a;
        if (lo <= 1 + 1. / 16384 && hi >= 1 - 1. / 16384) ++ambiguous;
      }
      printf(" errA=%s errB=%s totalA=%zu totalB=%zu calls=%d odone_diff_calls=%d maxcumdiff=%ld delaydev=%.3g delayEndA=%.6g delayEndB=%.6g clipsA=%zu clipsB=%zu ambiguous=%zu window=%zu maxdiff=%.6g gaindiff=%.6g resid=%.6g\n",
          eA? "1" : "-", eB? "1" : "-", A.cum, B.cum, calls, odiff, maxcumdiff, delaydev, dA, dB, *soxr_num_clips(A.s), *soxr_num_clips(B.s), ambiguous, m, maxdiff, gain, resid);
      free(d);
    }
    fflush(stdout);
    soxr_delete(A.s); soxr_delete(B.s); if (F.s) soxr_delete(F.s); if (G.s) soxr_delete(G.s);
    free(A.y); free(B.y); free(F.y); free(G.y);
  }
  return 0;
}
