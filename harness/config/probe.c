/* Correspondence harness of the Config model (C09, C13).
 *
 * Reads one operation per line, executes it on the real library (this TU #includes soxr.c so that the private struct
 * and the static helpers are visible; everything else comes from libsoxr.a built from the same working tree) and prints
 *   "> <line>"   the operation in the protocol of the Lean driver `soxr_config` (lean/SoxrModel/Config/Main.lean)
 *   "< <line>"   what the real code answered, in the form the driver prints it
 * checks/configlib.py feeds the "> " lines to the driver and diffs its answers with the "< " lines.
 * All doubles travel as IEEE-754 bit patterns, environment values hex-encoded; nothing here is computed by the
 * harness itself except the three "would dereference NULL" guards below (API misuse the model calls `misuse`/`nullcall`).
 *
 *   qspec <recipe> <flags> | rtspec <threads> | iospec <itype> <otype> | atoi x<hex>
 *   create ir= or= ch= [q=0] [recipe= rflags=] [prec= phase= pb= sb= qe= qflags=] [io=0] [viaio=1] [itype= otype= ioflags= ioe=]
 *          [rt=0] [threads= min= large= kb= rtflags=] [E.<SOXR_NAME>=x<hex>]...
 *   setfn none|data|fail|eof
 *   setratio <bits> | setch <n> | seterr <k|-> | process <inNull> <outNull> <ilen> <olen> | output <outNull> <olen>
 *   delay | clear | error | engine
 */
#include "soxr.c"
#include <stdio.h>
#include <stdint.h>
#include <inttypes.h>

/* NaNs are printed as the canonical quiet NaN: sign and payload of a NaN carry no meaning the model could share */
static uint64_t bits(double d) { union {double d; uint64_t u;} x; x.d = d; return d != d? 0x7ff8000000000000ull : x.u; }
static double dbl(uint64_t u) { union {double d; uint64_t u;} x; x.u = u; return x.d; }

static char const * const ENVS[] = {"SOXR_USE_SIMD", "SOXR_USE_SIMD32", "SOXR_USE_SIMD64", "SOXR_MIN_DFT_SIZE", "SOXR_LARGE_DFT_SIZE",
  "SOXR_COEFS_SIZE", "SOXR_NUM_THREADS", "SOXR_COEF_INTERP", "SOXR_STRICT_BUF", "SOXR_NOSMALLINTOPT", 0};

/* the error strings an application can hand to soxr_set_error, indexed like `allKinds` of the driver */
static char const * const KINDS[] = {"invalid quality type", "invalid io datatype(s)", "I/O ratio out-of-range", "imaging greater than rolloff",
  "transition bandwidth not in [0.2,50] % of nyquist", "transition band not within [50,150] % of nyquist", "precision not in [15,33] bits",
  "resampling factor not positive", "resampling factor too large", "phase response not in [0=min-phase,100=max-phase] %",
  "must set # channels before O/I ratio", "invalid # of channels", "# of channels can't be changed",
  "varying O/I ratio is not supported with this quality level", "null output buffer pointer", "input function reported failure", "injected error"};
#define NKINDS (sizeof(KINDS) / sizeof(KINDS[0]))

static soxr_t S;
static unsigned ch; static int itype, otype;
static char fnmode = 'n'; static int fn_failed;

static char * kvget(char * * t, int nt, char const * key)
{
  int i; size_t kl = strlen(key);
  for (i = 0; i < nt; ++i) if (!strncmp(t[i], key, kl) && t[i][kl] == '=') return t[i] + kl + 1;
  return 0;
}
static uint64_t kvu(char * * t, int nt, char const * key, uint64_t def) { char * v = kvget(t, nt, key); return v? strtoull(v, 0, 10) : def; }

static char * unhex(char const * v, char * out)
{
  size_t n = 0;
  if (*v == 'x') ++v;
  for (; v[0] && v[1]; v += 2) { unsigned x; sscanf(v, "%2x", &x); out[n++] = (char)x; }
  out[n] = 0;
  return out;
}

static size_t input_fn(void * state, soxr_in_t * data, size_t req)
{
  /* supplies silence: one zeroed block serves every channel (api sequences use at most 8 channels) */
  static double zeros[64 * 8]; static void const * ptrs[8]; unsigned c;
  (void)state;
  if (fnmode == 'f') { *data = 0; fn_failed = 1; return 0; }
  /* once end-of-input has been signalled no more input is offered (soxr.h: "no data is available nor shall be available") */
  if (fnmode == 'e' || !req || ch > 8 || S->flushing) { *data = &S; return 0; }
  if (req > 64) req = 64;
  for (c = 0; c < 8; ++c) ptrs[c] = zeros;
  *data = (itype & SOXR_SPLIT)? (void const *)ptrs : (void const *)zeros;
  return req;
}

static void print_err(char const * tag, soxr_error_t e) { printf("< %s %s\n", tag, e? e : "-"); }

static void do_create(char * * t, int nt)
{
  soxr_quality_spec_t q; soxr_io_spec_t io; soxr_runtime_spec_t rt; soxr_error_t err = "unset"; char * v; char buf[4096]; int i;
  int have_q = (int)kvu(t, nt, "q", 1), have_io = (int)kvu(t, nt, "io", 1), have_rt = (int)kvu(t, nt, "rt", 1);
  double ir = dbl(kvu(t, nt, "ir", 0)), orr = dbl(kvu(t, nt, "or", 0));
  ch = (unsigned)kvu(t, nt, "ch", 1);
  q = soxr_quality_spec((unsigned long)kvu(t, nt, "recipe", 4), (unsigned long)kvu(t, nt, "rflags", 0));
  if ((v = kvget(t, nt, "prec"))) q.precision = dbl(strtoull(v, 0, 10));
  if ((v = kvget(t, nt, "phase"))) q.phase_response = dbl(strtoull(v, 0, 10));
  if ((v = kvget(t, nt, "pb"))) q.passband_end = dbl(strtoull(v, 0, 10));
  if ((v = kvget(t, nt, "sb"))) q.stopband_begin = dbl(strtoull(v, 0, 10));
  if ((v = kvget(t, nt, "qe"))) q.e = atoi(v)? (void *)KINDS[0] : 0;
  if ((v = kvget(t, nt, "qflags"))) q.flags = strtoul(v, 0, 10);
  itype = (int)kvu(t, nt, "itype", 0); otype = (int)kvu(t, nt, "otype", 0);
  if (kvu(t, nt, "viaio", 0)) { io = soxr_io_spec((soxr_datatype_t)itype, (soxr_datatype_t)otype); io.flags = (unsigned long)kvu(t, nt, "ioflags", 0); }
  else { memset(&io, 0, sizeof(io)); io.itype = (soxr_datatype_t)itype; io.otype = (soxr_datatype_t)otype; io.scale = 1;
         io.flags = (unsigned long)kvu(t, nt, "ioflags", 0); io.e = kvu(t, nt, "ioe", 0)? (void *)KINDS[1] : 0; }
  rt = soxr_runtime_spec((unsigned)kvu(t, nt, "threads", 1));
  rt.log2_min_dft_size = (unsigned)kvu(t, nt, "min", rt.log2_min_dft_size);
  rt.log2_large_dft_size = (unsigned)kvu(t, nt, "large", rt.log2_large_dft_size);
  rt.coef_size_kbytes = (unsigned)kvu(t, nt, "kb", rt.coef_size_kbytes);
  rt.flags = (unsigned long)kvu(t, nt, "rtflags", rt.flags);
  for (i = 0; ENVS[i]; ++i) {
    char key[64]; sprintf(key, "E.%s", ENVS[i]);
    if ((v = kvget(t, nt, key))) setenv(ENVS[i], unhex(v, buf), 1); else unsetenv(ENVS[i]);
  }
  if (S) soxr_delete(S);
  fnmode = 'n';
  printf("> create");
  for (i = 0; i < nt; ++i) printf(" %s", t[i]);
  printf(" cpu32=%d cpu64=%d\n", (int)cpu_has_simd32(), (int)cpu_has_simd64());
  fflush(stdout);
  S = soxr_create(ir, orr, ch, &err, have_io? &io : 0, have_q? &q : 0, have_rt? &rt : 0);
  if (!have_io) itype = otype = 0;
  if (!S) { printf("< C err %s\n", err? err : "(null error string)"); return; }
  if (err) { printf("< C ok-with-error %s\n", err); return; }
  itype = (int)S->io_spec.itype; otype = (int)S->io_spec.otype;
  printf("< C ok engine=%s conv=%s ready=%d prec=%" PRIu64 " phase=%" PRIu64 " pb=%" PRIu64 " sb=%" PRIu64 " qflags=%lu min=%u large=%u kb=%u threads=%u rtflags=%lu ratio=%" PRIu64 "\n",
      soxr_engine(S), (S->interleave == (interleave_t)_soxr_interleave_f && S->deinterleave == (deinterleave_t)_soxr_deinterleave_f)? "f" :
      (S->interleave == (interleave_t)_soxr_interleave && S->deinterleave == (deinterleave_t)_soxr_deinterleave)? "d" : "?",
      S->resamplers != 0, bits(S->q_spec.precision), bits(S->q_spec.phase_response), bits(S->q_spec.passband_end),
      bits(S->q_spec.stopband_begin), S->q_spec.flags, S->runtime_spec.log2_min_dft_size, S->runtime_spec.log2_large_dft_size,
      S->runtime_spec.coef_size_kbytes, S->runtime_spec.num_threads, S->runtime_spec.flags, bits(S->io_ratio));
}

static size_t tsz(int t) { return soxr_datatype_size((soxr_datatype_t)t); }
static void * mkbuf(int type, size_t n, void * * * arr)
{
  *arr = 0;
  if (type & SOXR_SPLIT) {
    unsigned c; void * * a = calloc(ch + 1, sizeof(void *));
    for (c = 0; c < ch; ++c) a[c] = calloc(n + 1, tsz(type));
    *arr = a;
    return a;
  }
  return calloc(n * ch + 1, tsz(type));
}
static void rmbuf(void * b, void * * arr) { unsigned c; if (arr) for (c = 0; c < ch; ++c) free(arr[c]); free(b); }

int main(void)
{
  static char line[1 << 16]; char * t[512]; int nt;
  setvbuf(stdout, 0, _IOLBF, 0);
  while (fgets(line, sizeof(line), stdin)) {
    char * s = strtok(line, " \t\r\n");
    nt = 0;
    while (s && nt < 512) { t[nt++] = s; s = strtok(0, " \t\r\n"); }
    if (!nt) continue;
    if (!strcmp(t[0], "qspec") && nt == 3) {
      soxr_quality_spec_t q = soxr_quality_spec(strtoul(t[1], 0, 10), strtoul(t[2], 0, 10));
      printf("> qspec %s %s\n< Q e=%d prec=%" PRIu64 " phase=%" PRIu64 " pb=%" PRIu64 " sb=%" PRIu64 " flags=%lu\n", t[1], t[2], q.e != 0,
          bits(q.precision), bits(q.phase_response), bits(q.passband_end), bits(q.stopband_begin), q.flags);
    }
    else if (!strcmp(t[0], "rtspec") && nt == 2) {
      soxr_runtime_spec_t r = soxr_runtime_spec((unsigned)strtoul(t[1], 0, 10));
      printf("> rtspec %s\n< RT min=%u large=%u kb=%u threads=%u flags=%lu\n", t[1], r.log2_min_dft_size, r.log2_large_dft_size, r.coef_size_kbytes, r.num_threads, r.flags);
    }
    else if (!strcmp(t[0], "iospec") && nt == 3) {
      soxr_io_spec_t r = soxr_io_spec((soxr_datatype_t)atoi(t[1]), (soxr_datatype_t)atoi(t[2]));
      printf("> iospec %s %s\n< IO e=%d itype=%d otype=%d\n", t[1], t[2], r.e != 0, (int)r.itype, (int)r.otype);
    }
    else if (!strcmp(t[0], "atoi") && nt == 2) { char buf[4096]; printf("> atoi %s\n< A %d\n", t[1], atoi(unhex(t[1], buf))); }
    else if (!strcmp(t[0], "create")) do_create(t + 1, nt - 1);
    else if (!strcmp(t[0], "setfn") && nt == 2) {
      if (S) { fnmode = t[1][0]; soxr_set_input_fn(S, fnmode == 'n'? 0 : input_fn, 0, 0); }
    }
    else if (!S) printf("> %s\n< X no-resampler\n", t[0]);
    else if (!strcmp(t[0], "setratio") && nt == 2) {
      double r = dbl(strtoull(t[1], 0, 10));
      printf("> setratio %s\n", t[1]);
      /* guard: initialise() would call through a control block that fatal_error has zeroed */
      if (!S->error && S->num_channels && r > 0 && !S->channel_ptrs && !S->control_block[6]) printf("< X nullcall\n");
      else print_err("S", soxr_set_io_ratio(S, r, 0));
    }
    else if (!strcmp(t[0], "setch") && nt == 2) {
      unsigned n = (unsigned)strtoul(t[1], 0, 10);
      printf("> setch %s\n", t[1]);
      if (n != S->num_channels && n && !S->resamplers && !S->error && S->io_ratio > 0 && !S->channel_ptrs && !S->control_block[6]) printf("< X nullcall\n");
      else { print_err("S", soxr_set_num_channels(S, n)); ch = S->num_channels; }
    }
    else if (!strcmp(t[0], "seterr") && nt == 2) {
      printf("> seterr %s\n", t[1]);
      print_err("S", soxr_set_error(S, t[1][0] == '-'? 0 : KINDS[strtoul(t[1], 0, 10) % NKINDS]));
    }
    else if (!strcmp(t[0], "process") && nt == 5) {
      int inNull = atoi(t[1]), outNull = atoi(t[2]); size_t ilen = strtoul(t[3], 0, 10), olen = strtoul(t[4], 0, 10), idone = 0, odone = 0;
      int both = (S->io_spec.itype & S->io_spec.otype & SOXR_SPLIT) != 0;
      fn_failed = 0;
      if (S->flushing) inNull = 1;   /* no input after end-of-input (caller contract): only further flush requests */
      /* guard: with no resamplers built the call dereferences NULL (unless it returns before touching them: both buffers NULL, or an error recorded) */
      if (!(inNull && outNull) && !S->error && (!S->resamplers || (both && outNull) || (outNull && !olen && (S->io_spec.otype & SOXR_SPLIT))))
        printf("> process %d %d %zu quiet\n< X misuse\n", inNull, outNull, olen);
      else {
        void * * ia, * * oa; void * in = inNull? 0 : mkbuf(itype, ilen, &ia), * out = outNull? 0 : mkbuf(otype, olen, &oa);
        soxr_error_t e;
        ch = S->num_channels;
        e = soxr_process(S, in, ilen, &idone, out, olen, &odone);
        printf("> process %d %d %zu %s\n< P z=%d err=%s\n", inNull, outNull, olen, fn_failed? "failed" : "quiet", odone == 0, e? e : "-");
        if (odone > olen || idone > ilen) printf("< BOUNDS idone=%zu ilen=%zu odone=%zu olen=%zu\n", idone, ilen, odone, olen);
        if (in) rmbuf(in, ia); if (out) rmbuf(out, oa);
      }
    }
    else if (!strcmp(t[0], "output") && nt == 3) {
      int outNull = atoi(t[1]); size_t olen = strtoul(t[2], 0, 10), odone;
      fn_failed = 0;
      if (!S->error && (!S->resamplers || (outNull && !olen && (S->io_spec.otype & SOXR_SPLIT))))
        printf("> output %d %zu quiet\n< X misuse\n", outNull, olen);
      else {
        void * * oa; void * out = outNull? 0 : mkbuf(otype, olen, &oa);
        odone = soxr_output(S, out, olen);
        printf("> output %d %zu %s\n< K z=%d\n", outNull, olen, fn_failed? "failed" : "quiet", odone == 0);
        if (odone > olen) printf("< BOUNDS odone=%zu olen=%zu\n", odone, olen);
        if (out) rmbuf(out, oa);
      }
    }
    else if (!strcmp(t[0], "delay")) printf("> delay\n< K z=%d\n", soxr_delay(S) == 0);
    else if (!strcmp(t[0], "clear")) { printf("> clear\n"); print_err("S", soxr_clear(S)); }
    else if (!strcmp(t[0], "error")) { printf("> error\n"); print_err("S", soxr_error(S)); }
    else if (!strcmp(t[0], "engine")) {
      printf("> engine\n< N %s\n", soxr_engine(S));
    }
    else printf("> %s\n< bad-op\n", t[0]);
  }
  if (S) soxr_delete(S);
  return 0;
}
