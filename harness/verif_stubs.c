/* Default (weak) implementations of the SOXR_VERIF lock shim and yield hook: plain spin locks, no scheduling.
 * Harnesses that drive a deterministic scheduler (C17) provide strong definitions instead. */
typedef struct {int held, inited, id;} soxr_verif_lock_t;
__attribute__((weak)) void soxr_verif_init_lock(soxr_verif_lock_t * l, char const * n) { (void)n; l->held = 0; l->inited = 1; }
__attribute__((weak)) void soxr_verif_destroy_lock(soxr_verif_lock_t * l, char const * n) { (void)n; l->inited = 0; }
__attribute__((weak)) void soxr_verif_set_lock(soxr_verif_lock_t * l, char const * n)
{ (void)n; while (__atomic_exchange_n(&l->held, 1, __ATOMIC_ACQUIRE)) while (__atomic_load_n(&l->held, __ATOMIC_RELAXED)) ; }
__attribute__((weak)) void soxr_verif_unset_lock(soxr_verif_lock_t * l, char const * n) { (void)n; __atomic_store_n(&l->held, 0, __ATOMIC_RELEASE); }
__attribute__((weak)) void soxr_verif_yield(char const * tag) { (void)tag; }
/* first dereference of a transform's tables (fft4g.c): nothing to do unless a harness wants to see it (C17 scheduler) */
__attribute__((weak)) void soxr_verif_table_use(int const * ip, void const * w) { (void)ip; (void)w; }
